#!/bin/bash
# tools/coverage.sh <ID> <out.json> [repo]: statement coverage of the library under the quick workload of <ID>.
# Builds the harness a second time with -cover (library + harness main package, absolute GOCOVERDIR), runs
# the runner role once, and summarises `go tool covdata func` for the library package.
export GOFLAGS=-mod=mod GOPROXY=off GOSUMDB=off GOTOOLCHAIN=local
V="$(cd "$(dirname "$0")/.." && pwd)"
ID=$1; OUT=$2; REPO="${3:-${VERIF_REPO:-/repo}}"
W="$V/.work/cover.$ID.$$"; mkdir -p "$W/cov"; trap 'rm -rf "$W"' EXIT
cat > "$W/go.mod" <<MOD
module verif/harness

go 1.23

require github.com/corazawaf/libinjection-go v0.0.0

replace github.com/corazawaf/libinjection-go => $REPO
MOD
(cd "$V/harness" && go build -modfile="$W/go.mod" -tags verif -cover -coverpkg=github.com/corazawaf/libinjection-go,verif/harness/cmd/vh -o "$W/vh-cover" ./cmd/vh) > "$W/build.log" 2>&1 || { cat "$W/build.log"; exit 2; }
GOCOVERDIR="$W/cov" VERIF_DIR="$V" VERIF_WORK="$W" "$W/vh-cover" runner "$ID" quick 1 "$W/report.json" "$W/slots.bin" > "$W/run.log" 2>&1
(cd "$V/harness" && go tool covdata func -i="$W/cov" -pkg=github.com/corazawaf/libinjection-go) > "$W/func.txt" 2>"$W/cov.err" || { cat "$W/cov.err"; exit 2; }
(cd "$V/harness" && go tool covdata textfmt -i="$W/cov" -pkg=github.com/corazawaf/libinjection-go -o "$W/text.txt") 2>>"$W/cov.err"
[ -n "$COVER_KEEP_TEXT" ] && cp "$W/text.txt" "$COVER_KEEP_TEXT"
python3 - "$W/func.txt" "$OUT" "$ID" "$W/text.txt" <<'PY'
import sys,json,re
rows=[]
total=None
scope={'C06':('sqli',),'C07':('html5','xss')}.get(sys.argv[3],('',))
for l in open(sys.argv[1]):
    p=l.split()
    if len(p)<3: continue
    if p[0]=='total' or l.startswith('total'):
        total=float(p[-1].rstrip('%')); continue
    m=re.match(r'(.*?):(\d+):',p[0])
    fn=p[1]; pct=float(p[2].rstrip('%'))
    f=m.group(1).split('/')[-1] if m else p[0]
    if f=='verif_hooks.go' or not f.startswith(scope): continue
    rows.append((f,fn,pct))
# statement coverage restricted to the files in scope, from the text profile
st=cov=0
unc=[]
for l in open(sys.argv[4]):
    m=re.match(r'.*/([^/:]+):(\d+)\.\d+,(\d+)\.\d+ (\d+) (\d+)',l)
    if not m: continue
    f=m.group(1)
    if f=='verif_hooks.go' or not f.startswith(scope): continue
    n=int(m.group(4)); st+=n
    if int(m.group(5))>0: cov+=n
    else: unc.append("%s:%s-%s"%(f,m.group(2),m.group(3)))
total=round(100.0*cov/max(st,1),1)
never=[f+':'+fn for f,fn,p in rows if p==0.0]
partial=sorted([(p,f+':'+fn) for f,fn,p in rows if 0<p<100])
json.dump({"workload":"quick tier of "+sys.argv[3],"library_statement_coverage_percent":total,"files_in_scope":list(scope),"statements_in_scope":st,"statements_covered":cov,"uncovered_blocks":unc[:40],"library_functions":len(rows),
 "functions_never_entered":never,"functions_partially_covered":[ "%s %.1f%%"%(n,p) for p,n in partial]},open(sys.argv[2],'w'),indent=1)
print("coverage %s%% of library statements; never entered: %s"%(total,never))
PY
