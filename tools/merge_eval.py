#!/usr/bin/env python3
"""Merges seeded/<id>/eval.txt (written by tools/seeded_eval.sh) into meta.json: `ran` and `caught_by`."""
import json,glob,os,re,sys
V=os.path.dirname(os.path.dirname(os.path.abspath(__file__)))
pat=sys.argv[1] if len(sys.argv)>1 else '*'
for d in sorted(glob.glob(V+'/seeded/'+pat+'/')):
    ev=d+'eval.txt'
    if not os.path.exists(ev): continue
    m=json.load(open(d+'meta.json'))
    lines=[l.rstrip('\n') for l in open(ev) if l.strip()]
    extra=[l for l in m.get('ran',[]) if l.startswith('check ') and 'thorough' in l and l not in lines] if m.get('keep_thorough') else []
    m['ran']=lines+extra
    caught=[]
    for l in m['ran']:
        mm=re.match(r'check (C\d\d) (quick|thorough): exit=1 VIOLATION',l)
        if mm:
            tag=mm.group(1) if mm.group(2)=='quick' else mm.group(1)+'/thorough'
            if tag not in caught: caught.append(tag)
    m['caught_by']=caught
    json.dump(m,open(d+'meta.json','w'),indent=1,ensure_ascii=False)
    print(os.path.basename(d.rstrip('/')),caught)
