#!/usr/bin/env python3
"""Regenerates /verif/MANIFEST.json from the table below."""
import json, os, subprocess
V = os.path.dirname(os.path.dirname(os.path.abspath(__file__)))

CHECKS = {
 "C01": dict(technique="runtime monitoring: panic/fatal-error/no-progress capture on generated hostile inputs (Go runtime bounds checks as sanitizer)",
   text="Exploration. IsSQLi, each of its five contexts and the raw tokenizer in six modes are executed on millions of generated inputs (bounded-exhaustive atom sequences, truncations at every offset, mutation, scaled families); a panic is captured per case, a process-fatal error is attributed through a shared-memory journal, non-return through a progress watchdog confirmed alone. Held = no refuting execution among those observed.",
   note="Trusts the Go runtime's bounds/nil checks to turn memory errors into panics; termination restated as bounded progress (10 s + 10 us/byte); inputs outside the generated families are not covered.", ref="6 C01"),
 "C02": dict(technique="runtime monitoring: panic/stack-overflow/no-progress capture under a lowered stack ceiling on generated hostile inputs",
   text="Exploration. IsXSS, each of the five contexts and the tokenizer with a step cap are executed on generated inputs (exhaustive short strings over the HTML-significant alphabet, truncations, decoy-terminator bodies, mutation, multi-hundred-KiB repetitions of every byte and byte pair) with the goroutine stack ceiling lowered to 256 KiB so that input-proportional recursion is an observable crash.",
   note="Trusts Go runtime checks; termination restated as bounded progress; recursion observed through the 256 KiB ceiling on inputs up to 256 KiB (quick) / 4 MiB (thorough).", ref="6 C02"),

 "C03": dict(technique="runtime monitoring: constant-true oracle over an enumerated and sampled attack grammar",
   text="Exploration. Every member of a fixed attack grammar (11 quoting prefixes x closers x 14 separators (incl. NUL) x 70 payload templates x case masks x 12 tails, minus the productions dropped by a one-time calibration) is passed to IsSQLi; exhaustive with one separator per string and four case masks, sampled with independent separators and random masks beyond. Any false verdict is a violation with the per-context fingerprints as witness.",
   note="The grammar is fixed data calibrated once on the repaired tree (grammar/g03_dropped.txt lists the drops); detection outside the grammar is not claimed.", ref="6 C03"),
 "C04": dict(technique="runtime monitoring: constant-true oracle over a vector grammar instantiated from the live tables",
   text="Exploration. Every black tag, every on* event, every URL attribute x scheme, style/filter, xmlns/xlink/datasrc, attributename indirection and the markup vectors are rendered behind every breakout prefix with an axis-wise sweep of separators, quotings, case masks, tag ends and NUL positions, then random products incl. per-byte character-reference encodings, leading junk and NUL/LF inside schemes; IsXSS must be true.",
   note="Lists are read from the live tables at run time (a removed entry is C20's business). Grammar fixed; calibrated once.", ref="6 C04"),
 "C08": dict(technique="runtime monitoring: assertion on every IsSQLi return value against the live blacklist and per-context fingerprints",
   text="Exploration. On every generated input the pair returned by IsSQLi is checked: false comes with the empty string; true comes with 1-5 class characters, 'c' only last, a live blacklist member, equal to the fingerprint of some context computed on fresh state.",
   note="Per-context fingerprints come from the build-tagged accessor running the real code on a fresh state.", ref="6 C08"),
 "C09": dict(technique="runtime resource monitoring: thread-CPU-time scaling experiment per input family with fresh-process confirmation",
   text="Exploration. For ~900 catalogue families (thorough: + ~35k generated pair families) thread CPU time is measured at n, 4n, 16n bytes; growth >= 64 over 16x (exponent >= 1.5) or > 2 us/byte, reproduced twice alone in a fresh process, is a violation; growth in (40,64) is reported as inconclusive.",
   note="Timing thresholds calibrated on this sandbox (linear 13-24, quadratic 139-376); decides only the listed and generated families.", ref="6 C09"),
 "C12": dict(technique="runtime monitoring: public result vs documented cascade recomputed from fresh-state per-context observations; metamorphic quote-equivalence",
   text="Exploration. IsSQLi is compared on every generated input with the documented context cascade evaluated over fresh-state observations of the real code (gates from the pass's own counters); reading s inside a quote is compared (fingerprint, verdict unless sos/s&s, statistics, token stream shifted by one) with reading quote+s as-is.",
   note="The cascade order is my transcription of the property; its elements are observations of the real code.", ref="6 C12"),
 "C13": dict(technique="runtime monitoring: metamorphic relations between injection contexts, embeddings and text prefixes",
   text="Exploration. On every generated HTML input: IsXSS equals the OR of the five per-context verdicts; each attribute-context verdict equals the data-state verdict of the input embedded after <a , <a b=', <a b=\", <a b=`; prepending '<'-free text never changes the data-state verdict.",
   note="Per-context verdicts via the accessor (the real isXSS).", ref="6 C13"),
 "C15": dict(technique="runtime monitoring: constant-false oracle over strings without '<' and '='",
   text="Exploration. Bounded-exhaustive strings over the HTML alphabet minus '<' and '=', plus filtered corpus truncations, sequences, mutations and XSS-grammar vectors; IsXSS must be false, the firing context is reported.",
   note="Exhaustive only up to the stated atom bound; sampled beyond.", ref="6 C15"),
 "C16": dict(technique="runtime monitoring: trace-invariant checker over recorded token records and scan offsets",
   text="Exploration. The token stream of every generated input in all six modes is recorded through the accessor (class, offset, length, value, scan offset before/after) and checked against the slice / order / progress / end-of-scan inequalities.",
   note="Accessor loop = the loop the repository's own token fixtures use.", ref="6 C16"),
 "C17": dict(technique="runtime monitoring: trace-invariant checker plus first-terminator oracle over exhaustively enumerated construct bodies",
   text="Exploration. Generic range/order/count inequalities on every HTML token trace from all five contexts; for each delimited construct every body over {terminator bytes, NUL, filler, '<'} up to length 6 (thorough 10) behind three text prefixes is compared (offset, length, resume offset) with a first-terminator oracle written from the property text.",
   note="Oracle is a direct transcription of the property statement.", ref="6 C17"),
 "C18": dict(technique="runtime monitoring: first-terminator oracle over exhaustively enumerated literal bodies, all literal forms and all 223 q-delimiters",
   text="Exploration. For 19 literal forms x bodies over {delimiter, backslash, x, other quote} up to length 7 (thorough 11), periodic bodies U.V.U.V, every q-quote delimiter byte >= 33, dollar quotes, and literals embedded in random SQL, the string token (content start/end from the scan offset, closed?, marks, resume offset) is compared with a transcription of the property's terminator rules.",
   note="Oracle independent of the implementation; token records via accessor.", ref="6 C18"),
 "C20": dict(technique="runtime inspection of live data structures at a quiescent point against predicates and a pinned snapshot",
   text="Exploration (finite space, enumerated completely: exhaustive=true). All entries of the five live tables are read after package initialisation and checked for well-formedness; every entry of the pinned baseline snapshot must be present with the same classification and is exercised through the real look-up.",
   note="baseline/tables.json was taken once from the pinned tree 0520984.", ref="6 C20"),

 "C05": dict(technique="race detector (go build -race) over an unsynchronised concurrent workload + offline checker over recorded call histories from fresh child processes",
   text="Exploration. (1) A race-instrumented build runs 4/16/64 goroutines x GOMAXPROCS 2/4/16 over a shared input set with IsSQLi/IsXSS mixed and no synchronisation between start barrier and join; DATA RACE blocks are counted in the GORACE log and de-duplicated by outermost library frames. (2) Sequential and interleaved call histories run in fresh child processes with per-goroutine event logs; an offline checker asserts one result per (operation,input) across all histories, goroutines and repetitions and equality with fresh-process references; overlap statistics show that interleaving happened.",
   note="Race detection is happens-before based on the paths the shared inputs reach; the static audit of package-level writes named in the property text is another technique and is not done.", ref="6 C05"),
 "C10": dict(technique="runtime monitoring: metamorphic relation (ASCII case re-assignment outside exempt positions) on IsSQLi verdict and fingerprint",
   text="Exploration. A catalogue of ~130 seeds, one or more per case-folding site, is swept with all 2^k case masks (k<=12 letters; 4096/65536 random masks beyond); every other SQL workload input gets 8 masks. IsSQLi(s') must equal IsSQLi(s) in verdict and fingerprint. Exempt positions are over-approximated syntactically.",
   note="Over-wide exemptions lose coverage only; never compare through strings.ToUpper (byte-wise flips).", ref="6 C10"),
 "C11": dict(technique="runtime monitoring: metamorphic relations (case re-assignment; NUL insertion inside recorded name tokens) on IsXSS / per-context verdicts",
   text="Exploration. HTML case-site catalogue with all 2^k masks plus 8 masks on every HTML workload input (inputs with a case variant of [CDATA[ skipped): IsXSS unchanged. For every input, context and tag-name/attribute-name token recorded through the accessor, a NUL is inserted at every interior position (and doubled on a sample): that context's verdict unchanged.",
   note="Token boundaries come from the accessor's recorded token stream of the real tokenizer.", ref="6 C11"),
 "C14": dict(technique="runtime monitoring: constant-false oracle over a benign grammar defined against the live keyword table + exhaustive class-abstraction lookup",
   text="Exploration. All 62 {n,1} class sequences of length 1-5 are looked up in the live blacklist (exhaustive for the abstraction); every {word,number} sequence shape up to length 7 is instantiated 64 (2048) times from 8k admitted words and boundary-length numbers; e-mail/decimal/sentence shapes are sampled. IsSQLi must return (false,\"\").",
   note="Words are filtered at run time against the live table; shapes calibrated once.", ref="6 C14"),
 "C19": dict(technique="runtime monitoring: decoder specification (reference model) on exhaustively enumerated strings + constant-true oracle over enumerated scheme encodings",
   text="Exploration. The character-reference decoder is compared (value, consumed length) with a 40-line specification on every string over a 14-symbol alphabet up to length 6 (7) and on boundary values around 0x1000FF; every per-byte encoding of data: and java (8^5, 8^4) and samples for the longer schemes, with junk prefixes, NUL/LF interleaving and case masks, must satisfy the URL predicate and be detected inside every live URL attribute under 4 quotings.",
   note="Decoder specification written from the property text.", ref="6 C19"),

 "C06": dict(technique="runtime monitoring: differential execution against an independently written reference model of the SQLi pipeline, six modes per input",
   text="Exploration. Every generated input (bounded-exhaustive atom sequences, truncations, mutation, novelty-guided growth, attack grammar, every keyword-table entry in sentence frames) is run through the real pipeline via the accessors and through refsql (an independently written executable specification: class switch, cursor scanning, fresh state per pass) in all six modes; token streams incl. scan offsets and counters, folded sequences and fold counters, fingerprints, blacklist/whitelist decisions and the IsSQLi cascade must be equal.",
   note="refsql is my statement of the algorithm with the spec decisions of DESIGN.md §5; it reads the live keyword table. Agreement on the explored inputs only.", ref="6 C06"),
 "C07": dict(technique="runtime monitoring: differential execution against an independently written reference model of the HTML5 tokenizer and XSS classifier, five contexts per input",
   text="Exploration. Every generated HTML input (incl. every delimited construct with decoy-terminator bodies) is tokenised by the real state machine (accessor) and by refhtml (explicit state enum, first-terminator helpers) from all five start contexts; (type, offset, length) streams, per-context verdicts, IsXSS vs the OR, and the tag/attribute/URL predicates and decoder on every token text must be equal.",
   note="refhtml is my statement of the algorithm with the spec decisions of DESIGN.md §5; it reads the live black lists.", ref="6 C07"),
}

NOT_YET = {}

def main():
    props = [json.loads(l) for l in open(os.path.join(V, "properties.jsonl"))]
    repo_commits = subprocess.run(["git","-C","/repo","log","--format=%h %s"],capture_output=True,text=True).stdout.strip().split("\n")
    hook_commits = [c.split()[0] for c in repo_commits if c.split(" ",1)[1].startswith("verif:")]
    man = {
      "version": 1,
      "setup_cmd": "./setup.sh",
      "hooks": {
        "guard": "verif",
        "enable": "go build -tags verif (the harness module replaces github.com/corazawaf/libinjection-go with /repo and is rebuilt by every ./check invocation)",
        "baseline_off_cmd": "cd /repo && GOFLAGS=-mod=mod GOPROXY=off GOSUMDB=off GOTOOLCHAIN=local go test -json -vet=off -count=1 -timeout 25m ./...",
        "source_commits": hook_commits,
        "add_only": True,
      },
      "engines": [
        {"name": "vh", "path": "harness/cmd/vh", "serves_properties": sorted(CHECKS.keys()),
         "kind_free_text": "Go runtime-monitoring harness: deterministic workload generators, per-case panic capture, mmap journal for fatal-error attribution, progress watchdog, reference-model / invariant / metamorphic monitors, race-detector runs, thread-CPU timing"}
      ],
      "checks": [],
      "not_applicable": [],
      "notes": "All checks: ./check <ID> quick|thorough; replay: ./check replay <path>. Known findings: KNOWN_FINDINGS.txt. Design: DESIGN.md.",
    }
    for p in props:
        i = p["id"]
        if i in CHECKS:
            c = CHECKS[i]
            man["checks"].append({
              "property_id": i,
              "quick_cmd": "./check %s quick" % i,
              "thorough_cmd": "./check %s thorough" % i,
              "evidence_file": "evidence/%s.json" % i,
              "replay_cmd_template": "./check replay {path}",
              "engine": "vh",
              "level_claimed": {"category": "exploration", "text": c["text"], "design_ref": "DESIGN.md §" + c["ref"]},
              "level_note": c["note"],
              "technique": c["technique"],
            })
        else:
            man["not_applicable"].append({"property_id": i, "reason": NOT_YET.get(i, "monitor not built yet in this session (runtime monitoring applies; see DESIGN.md §6)")})
    json.dump(man, open(os.path.join(V, "MANIFEST.json"), "w"), indent=1)
    print("checks:", len(man["checks"]), "not_applicable:", len(man["not_applicable"]))

if __name__ == "__main__":
    main()
