#!/usr/bin/env python3
"""Regenerates /verif/MANIFEST.json from the table below."""
import json, os, subprocess
V = os.path.dirname(os.path.dirname(os.path.abspath(__file__)))

CHECKS = {
 "C01": dict(technique="runtime monitoring: panic/fatal-error/no-progress capture on generated hostile inputs (Go runtime bounds checks as sanitizer)",
   text="Exploration. IsSQLi, each of its five contexts and the raw tokenizer in six modes are executed on millions of generated inputs (bounded-exhaustive atom sequences, truncations at every offset, mutation, scaled families); a panic is captured per case, a process-fatal error is attributed through a shared-memory journal, non-return through a progress watchdog confirmed alone. Held = no refuting execution among those observed.",
   note="Trusts the Go runtime's bounds/nil checks to turn memory errors into panics; termination restated as bounded progress (10 s + 10 us/byte); inputs outside the generated families are not covered.", ref="6 C01"),
 "C02": dict(technique="runtime monitoring: panic/stack-overflow/no-progress capture under a lowered stack ceiling on generated hostile inputs",
   text="Exploration. IsXSS, each of the five contexts and the tokenizer with a step cap are executed on generated inputs (exhaustive short strings over the HTML-significant alphabet, truncations, decoy-terminator bodies, mutation, multi-hundred-KiB repetitions of every byte and byte pair) with the goroutine stack ceiling lowered to 256 KiB so that input-proportional recursion is an observable crash.",
   note="Trusts Go runtime checks; termination restated as bounded progress; recursion observed through the 256 KiB ceiling on inputs up to 256 KiB (quick) / 4 MiB (thorough).", ref="6 C02"),
}

NOT_YET = {}

def main():
    props = [json.loads(l) for l in open(os.path.join(V, "properties.jsonl"))]
    repo_commits = subprocess.run(["git","-C","/repo","log","--format=%h %s"],capture_output=True,text=True).stdout.strip().split("\n")
    hook_commits = [c.split()[0] for c in repo_commits if c.split(" ",1)[1].startswith("verif:")]
    man = {
      "version": 1,
      "setup_cmd": "./setup.sh",
      "hooks": {
        "guard": "verif",
        "enable": "go build -tags verif (the harness module replaces github.com/corazawaf/libinjection-go with /repo and is rebuilt by every ./check invocation)",
        "baseline_off_cmd": "cd /repo && GOFLAGS=-mod=mod GOPROXY=off GOSUMDB=off GOTOOLCHAIN=local go test -json -vet=off -count=1 -timeout 25m ./...",
        "source_commits": hook_commits,
        "add_only": True,
      },
      "engines": [
        {"name": "vh", "path": "harness/cmd/vh", "serves_properties": sorted(CHECKS.keys()),
         "kind_free_text": "Go runtime-monitoring harness: deterministic workload generators, per-case panic capture, mmap journal for fatal-error attribution, progress watchdog, reference-model / invariant / metamorphic monitors, race-detector runs, thread-CPU timing"}
      ],
      "checks": [],
      "not_applicable": [],
      "notes": "All checks: ./check <ID> quick|thorough; replay: ./check replay <path>. Known findings: KNOWN_FINDINGS.txt. Design: DESIGN.md.",
    }
    for p in props:
        i = p["id"]
        if i in CHECKS:
            c = CHECKS[i]
            man["checks"].append({
              "property_id": i,
              "quick_cmd": "./check %s quick" % i,
              "thorough_cmd": "./check %s thorough" % i,
              "evidence_file": "evidence/%s.json" % i,
              "replay_cmd_template": "./check replay {path}",
              "engine": "vh",
              "level_claimed": {"category": "exploration", "text": c["text"], "design_ref": "DESIGN.md §" + c["ref"]},
              "level_note": c["note"],
              "technique": c["technique"],
            })
        else:
            man["not_applicable"].append({"property_id": i, "reason": NOT_YET.get(i, "monitor not built yet in this session (runtime monitoring applies; see DESIGN.md §6)")})
    json.dump(man, open(os.path.join(V, "MANIFEST.json"), "w"), indent=1)
    print("checks:", len(man["checks"]), "not_applicable:", len(man["not_applicable"]))

if __name__ == "__main__":
    main()
