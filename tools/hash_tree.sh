#!/bin/bash
# tools/hash_tree.sh <repo-dir>: behaviour digest of a tree (construction tool; not a registered check)
export GOFLAGS=-mod=mod GOPROXY=off GOSUMDB=off GOTOOLCHAIN=local
V="$(cd "$(dirname "$0")/.." && pwd)"
W="$V/.work/hash.$$"; mkdir -p "$W"; trap 'rm -rf "$W"' EXIT
cat > "$W/go.mod" <<MOD
module verif/harness

go 1.23

require github.com/corazawaf/libinjection-go v0.0.0

replace github.com/corazawaf/libinjection-go => $1
MOD
(cd "$V/harness" && go build -modfile="$W/go.mod" -tags verif -o "$W/vh" ./cmd/vh) || exit 2
VERIF_DIR="$V" "$W/vh" behaviour-hash x
