#!/bin/bash
# builds the harness for ad-hoc use: .work/dev/vh (not used by registered checks)
export GOFLAGS=-mod=mod GOPROXY=off GOSUMDB=off GOTOOLCHAIN=local
V="$(cd "$(dirname "$0")/.." && pwd)"
mkdir -p "$V/.work/dev"
cd "$V/harness" && go build -tags verif -o "$V/.work/dev/vh" ./cmd/vh
