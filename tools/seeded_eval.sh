#!/bin/bash
# tools/seeded_eval.sh <PROP> <i> [check ids...]
# Confirms a sub-agent's mutant in a scratch copy (applies, builds, suite green, demo fails with / passes
# without), stores it under seeded/<PROP>-m<i>/ and runs the given checks (default: <PROP>) against the
# patched scratch copy. Scratch copy and build output are removed afterwards.
export GOFLAGS=-mod=mod GOPROXY=off GOSUMDB=off GOTOOLCHAIN=local
V=/verif
P=$1; I=$2; shift 2
CHECKS="${*:-$P}"
ROUND="${ROUND:-}"          # ROUND=r2 reads /tmp/wt2out/<P>/MUTANT<i> and stores seeded/<P>-r2m<i>
SRC=/tmp/wt/$P/MUTANT$I
[ "$ROUND" = r2 ] && SRC=/tmp/wt2out/$P/MUTANT$I
[ "$ROUND" = r3 ] && SRC=/tmp/wt3out/$P/MUTANT$I
[ "$ROUND" = r4 ] && SRC=/tmp/wt4out/$P/MUTANT$I
[ "$ROUND" = r5 ] && SRC=/tmp/wt5out/$P/MUTANT$I
[ "$ROUND" = r6 ] && SRC=/tmp/wt6out/$P/MUTANT$I
[ "$ROUND" = r7 ] && SRC=/tmp/wt7out/$P/MUTANT$I
[ "$ROUND" = r8 ] && SRC=/tmp/wt8out/$P/MUTANT$I
[ "$ROUND" = r9 ] && SRC=/tmp/wt9out/$P/MUTANT$I
[ "$ROUND" = r10 ] && SRC=/tmp/wt10out/$P/MUTANT$I
[ "$ROUND" = r11 ] && SRC=/tmp/wt11out/$P/MUTANT$I
[ "$ROUND" = r12 ] && SRC=/tmp/wt12out/$P/MUTANT$I
[ "$ROUND" = r13 ] && SRC=/tmp/wt13out/$P/MUTANT$I
[ "$ROUND" = r14 ] && SRC=/tmp/wt14out/$P/MUTANT$I
[ "$ROUND" = r15 ] && SRC=/tmp/wt15out/$P/MUTANT$I
[ "$ROUND" = r16 ] && SRC=/tmp/wt16out/$P/MUTANT$I
DST=$V/seeded/$P-${ROUND}m$I
if [ -d "$SRC" ]; then mkdir -p $DST; cp $SRC/patch.diff $SRC/demo_test.go $SRC/meta.json $DST/ 2>/dev/null; fi
[ -f $DST/patch.diff ] || { echo "no patch for $P m$I"; exit 2; }
SC=/tmp/sc/$P-${ROUND}m$I; rm -rf $SC; mkdir -p $SC
git -C /repo archive HEAD | tar -x -C $SC
cd $SC
res() { echo "$1" >> $DST/eval.txt; echo "  $1"; }
: > $DST/eval.txt
res "repo HEAD $(git -C /repo rev-parse --short HEAD)"
cp $DST/demo_test.go ./zz_demo_test.go
if go test -count=1 -run 'TestMutantDemo' . > $SC.log 2>&1; then res "unpatched: demo passes"; else res "unpatched: demo FAILS (bad mutant)"; fi
rm -f zz_demo_test.go
if ! git apply $DST/patch.diff 2> $SC.log; then res "patch does not apply: $(head -c 300 $SC.log)"; cd /; rm -rf $SC $SC.log; exit 3; fi
if go build ./... > $SC.log 2>&1 && go vet -tags verif . >> $SC.log 2>&1; then res "patched: builds"; else res "patched: BUILD FAILS"; fi
n=$(go test -count=1 -json ./... 2>/dev/null | grep -c '"Action":"pass","Package":"github.com/corazawaf/libinjection-go","Test"')
f=$(go test -count=1 -json ./... 2>/dev/null | grep -c '"Action":"fail"')
res "patched: suite pass=$n fail=$f (want 499/0)"
cp $DST/demo_test.go ./zz_demo_test.go
RACEFLAG=""; grep -q -- "-race" $DST/meta.json 2>/dev/null && RACEFLAG="-race"
if timeout 900 go test $RACEFLAG -count=1 -run 'TestMutantDemo' . > $SC.log 2>&1; then res "patched: demo PASSES (mutant does not manifest in demo)"; else res "patched: demo fails (as intended)"; fi
rm -f zz_demo_test.go
mkdir -p $V/.work/seeded-ev
for c in $CHECKS; do
  cd $V
  out=$(VERIF_REPO=$SC VERIF_EVIDENCE_DIR=$V/.work/seeded-ev VERIF_REPLAY_DIR=$V/.work/seeded-replays timeout 3000 ./check $c ${TIER:-quick} 2>&1); rc=$?
  first=$(echo "$out" | grep -m1 -A2 '^VIOLATION' | cut -c1-300 | tr '\n' ' ')
  res "check $c ${TIER:-quick}: exit=$rc ${first:-$(echo "$out" | tail -1 | cut -c1-200)}"
done
rm -rf $SC $SC.log
