#!/usr/bin/env python3
"""Regenerates the seeded-changes table in DESIGN.md (between the SEEDED-TABLE markers)."""
import json,glob,os,re
V=os.path.dirname(os.path.dirname(os.path.abspath(__file__)))
rows=[]
for d in sorted(glob.glob(V+'/seeded/*/')):
    m=json.load(open(d+'meta.json'))
    name=os.path.basename(d.rstrip('/'))
    summ=(m.get('summary') or '').replace('|','/').replace('\n',' ')
    if len(summ)>150: summ=summ[:147]+'...'
    witness=''
    for l in m.get('ran',[]):
        if l.startswith('check ') and 'VIOLATION' in l:
            k=l.find('kind=')
            witness=l[k:k+110].replace('|','/') if k>=0 else ''
    rows.append('| %s | %s | %s | %s |'%(name, summ, (', '.join(m.get('caught_by',[])) or ('n/a (neutralised by the D8 repair)' if m.get('neutralised') else 'MISSED')), witness))
table='| seeded | change | caught by | witness |\n|---|---|---|---|\n'+'\n'.join(rows)+'\n'
p=V+'/DESIGN.md'
s=open(p).read()
a='<!-- SEEDED-TABLE-BEGIN -->\n'; b='<!-- SEEDED-TABLE-END -->\n'
if a in s:
    s=s[:s.index(a)+len(a)]+table+s[s.index(b):]
else:
    i=s.index('| seeded | change | caught by | witness |')
    j=s.index('## 10. Layout and interface')
    s=s[:i]+a+table+b+'\n'+s[j:]
open(p,'w').write(s)
print(len(rows),"rows")
