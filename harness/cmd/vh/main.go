// vh is the single binary behind ./check: driver (run), runner child,
// single-case probe child, and replay.
package main

import (
	"fmt"
	"os"
	"strconv"

	"verif/harness/core"
	_ "verif/harness/gen"
	"verif/harness/mon"
)

func usage() {
	fmt.Fprintln(os.Stderr, "usage: vh run <ID> quick|thorough | vh replay <path>")
	os.Exit(2)
}

func main() {
	if len(os.Args) < 3 {
		usage()
	}
	switch os.Args[1] {
	case "run":
		if len(os.Args) < 4 {
			usage()
		}
		ch := mon.Lookup(os.Args[2])
		if ch == nil {
			fmt.Println("unknown property", os.Args[2])
			os.Exit(2)
		}
		tier := os.Args[3]
		if tier != "quick" && tier != "thorough" {
			usage()
		}
		os.Exit(core.Drive(ch, tier))
	case "runner":
		// runner <ID> <tier> <seed> <out> <slots>
		ch := mon.Lookup(os.Args[2])
		seed, _ := strconv.ParseUint(os.Args[4], 10, 64)
		os.Exit(core.Runner(ch, os.Args[3], seed, os.Args[5], os.Args[6]))
	case "probe":
		ch := mon.Lookup(os.Args[2])
		os.Exit(core.ProbeMain(ch, os.Args[3], os.Args[4]))
	case "coldstart":
		// coldstart <ID> <k>: the very first library calls of a process, from 16 goroutines at once
		ch := mon.Lookup(os.Args[2])
		k, _ := strconv.Atoi(os.Args[3])
		os.Exit(core.ColdStart(ch, k))
	case "c05work":
		os.Exit(mon.C05Work(os.Args[2]))
	case "c05oneshot":
		os.Exit(mon.C05OneShot(os.Args[2], os.Args[3]))
	case "calibrate":
		switch os.Args[2] {
		case "C03":
			mon.CalibrateC03()
		case "C04":
			mon.CalibrateC04()
		case "C14":
			mon.CalibrateC14()
		}
	case "behaviour-hash":
		mon.BehaviourHash()
	case "snapshot-tables":
		if err := mon.SnapshotTables(os.Args[2]); err != nil {
			fmt.Println(err)
			os.Exit(1)
		}
	case "replay":
		os.Exit(core.ReplayMain(mon.Lookup, os.Args[2]))
	default:
		usage()
	}
}
