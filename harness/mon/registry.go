package mon

import "verif/harness/core"

var registry = map[string]func() *core.Check{
	"C01": c01,
	"C02": c02,
}

// Lookup returns the check for a property id, or nil.
func Lookup(id string) *core.Check {
	if f, ok := registry[id]; ok {
		return f()
	}
	return nil
}

// IDs lists the registered properties.
func IDs() []string {
	var out []string
	for k := range registry {
		out = append(out, k)
	}
	return out
}
