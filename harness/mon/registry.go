package mon

import (
	"strings"

	li "github.com/corazawaf/libinjection-go"

	"verif/harness/core"
)

var registry = map[string]func() *core.Check{
	"C01": c01,
	"C02": c02,
	"C03": c03,
	"C04": c04,
	"C05": c05,
	"C06": c06,
	"C07": c07,
	"C08": c08,
	"C09": c09,
	"C10": c10,
	"C11": c11,
	"C12": c12,
	"C13": c13,
	"C14": c14,
	"C15": c15,
	"C16": c16,
	"C17": c17,
	"C18": c18,
	"C19": c19,
	"C20": c20,
}

// History inputs (core.Check.Spice): inputs that end inside a construct, fire
// in a late context, take a rare rule, or are empty. The per-input monitors
// feed two of them to the public entry point before every 61st case, so a
// scanner state, pool or cache that survives a call meets the monitored
// inputs right afterwards.
var sqlSpice = []string{
	"1' or '1'='1", "x'--sp_password", "1 #\n or 1", "1 --x\n", "/*", "'", "\"", "`", "select", "1 union select 1,2 --", "q'[", "$t$", "@@", "0x", "{`", "1;", "\\", "a.b`", "1 /*!", "",
	"x' and 1=(select 1) -- ", strings.Repeat("1+", 40), "foo--", "1c", "-1' union all select null,null#", "x\" or \"a\"=\"a", "pg_sleep", "load\x7ffile", "1 in (", "n'", "u&'", "aaaaaaaaaaaaaaaaaaaaaaaaaaaaaaaaaaaaaaaaaa.",
}

var htmlSpice = []string{
	"</p ", "</a", "<a onclick=alert(1)>", "<a href=javascript:x>", "<!--", "<![CDATA[", "x' onerror=y", "<svg><set attributeName=onmouseover>", "", "<script>", "<a b='", "`", "<a b=\"c", "<%", "<?xml", "<!doctype",
	"x\" onload=x ", "<a/", "<a b=c/", "</script x='", "<a on", "<p style=", "x` onclick=x", ">", "<", "<a href=&#", "</", "<a b", "<a b=", "<style>",
	// positives containing NULs (a NUL-stripping scratch buffer), long positives (memos for long inputs)
	"\x00<xss>", "\x00<script>", "<scr\x00ipt>x", "\x00    <script>alert(1)</script>", "x\x00 onclick=alert(1) ", "\x00<a href=javascript:x>",
	"<div class=\"container main-content wrapper\"><p>some ordinary text</p><script>alert(document.cookie)</script></div>", strings.Repeat("lorem ipsum dolor sit amet ", 300) + "<img src=x onerror=alert(1)>",
}

var sqlSpiced = map[string]bool{"C01": true, "C03": true, "C06": true, "C08": true, "C10": true, "C12": true, "C14": true, "C16": true, "C18": true}
var htmlSpiced = map[string]bool{"C02": true, "C04": true, "C07": true, "C11": true, "C13": true, "C15": true, "C17": true, "C19": true}

// Lookup returns the check for a property id, or nil.
func Lookup(id string) *core.Check {
	f, ok := registry[id]
	if !ok {
		return nil
	}
	ch := f()
	if ch.Custom == nil {
		switch {
		case sqlSpiced[id]:
			ch.Spice, ch.SpiceCall = sqlSpice, func(s string) { li.IsSQLi(s) }
		case htmlSpiced[id]:
			ch.Spice, ch.SpiceCall = htmlSpice, func(s string) { li.IsXSS(s) }
		}
		wrapS := "one-token units repeated an exact number of times around 2^8 and 2^16 between two halves of an attack (counter wrap-around)"
		aliasS := "every single-word table key with one letter written as its non-ASCII case-mapping alias (KELVIN SIGN, LONG S, dotless/dotted I, fullwidth)"
		qualS := "every table word behind 15 owner / schema qualifiers; every literal form glued to 29 preceding tokens and followed by 15 kinds of white space and another literal; 11 attacks in 31 transport encodings; 814 words of SQL dialects (corpus/sqlwords.txt) in 30 positions each; English phrases with a word of SQL next to ordinary nouns; every seed twice, joined the ways a repeated parameter is joined; 46 token forms followed by every pair of 33 tail atoms (backslash, CR, LF, TAB, NUL ...) as the last bytes and in front of another token; number / string literals continued by 1-4 digit groups behind ten separators"
		seamS := "two features k x 64 KiB apart (k = 1-32, thorough 1-64, each -1/0/+1 byte)"
		attrS := "~170 attribute names of HTML / SVG / MathML x ~90 value shapes with empty, doubled or cut-off list, pair and reference syntax (incl. data: URLs with the delimiters in every order); one tag with 1..k distinct listed attribute names; every listed name behind 20 namespace-like prefixes; 238 element names (corpus/htmlelements.txt) in 18 frames; every seed twice, joined the ways a repeated parameter is joined; twenty raw-text / RCDATA / foreign elements followed by a complete or cut-off end tag of the same name with one NUL at every position, as the last bytes and before six tails"
		aliasH := "tags, attributes, events and schemes of the live tables with one letter written as its non-ASCII case-mapping alias; one-token units repeated an exact number of times around 2^8 and 2^16"
		var parts []string
		switch id {
		case "C01":
			parts = []string{wrapS, aliasS, qualS}
		case "C06", "C16":
			parts = []string{wrapS, aliasS, qualS, seamS}
		case "C08", "C12":
			parts = []string{wrapS, aliasS, qualS, seamS, "bodies of 100 and 128 MiB (thorough up to 256 MiB)"}
		case "C10":
			parts = []string{qualS}
		case "C02":
			parts = []string{attrS, aliasH}
		case "C07", "C13", "C17":
			parts = []string{attrS, aliasH, seamS}
		case "C11":
			parts = []string{attrS}
		}
		if len(parts) > 0 {
			ch.Rule += " Shared workload additions: " + strings.Join(parts, "; ") + "."
		}
		if ch.SpiceCall != nil {
			ch.Rule += " Before every 61st case each worker feeds two of " + map[bool]string{true: "32", false: "38"}[sqlSpiced[id]] + " fixed history inputs (inputs ending inside a construct, positives, rare rules, the empty string) to the public entry point, results ignored; a violation that a lone call in a fresh process does not show is probed again in a fresh process after the calls recorded before it and is then reported as <kind>-after-history."
		}
	}
	return ch
}

// IDs lists the registered properties.
func IDs() []string {
	var out []string
	for k := range registry {
		out = append(out, k)
	}
	return out
}
