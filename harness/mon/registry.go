package mon

import "verif/harness/core"

var registry = map[string]func() *core.Check{
	"C01": c01,
	"C02": c02,
	"C03": c03,
	"C04": c04,
	"C05": c05,
	"C06": c06,
	"C07": c07,
	"C08": c08,
	"C09": c09,
	"C10": c10,
	"C11": c11,
	"C12": c12,
	"C13": c13,
	"C14": c14,
	"C15": c15,
	"C16": c16,
	"C17": c17,
	"C18": c18,
	"C19": c19,
	"C20": c20,
}

// Lookup returns the check for a property id, or nil.
func Lookup(id string) *core.Check {
	if f, ok := registry[id]; ok {
		return f()
	}
	return nil
}

// IDs lists the registered properties.
func IDs() []string {
	var out []string
	for k := range registry {
		out = append(out, k)
	}
	return out
}
