package mon

import (
	"fmt"
	"strings"
	"sync"

	li "github.com/corazawaf/libinjection-go"

	"verif/harness/core"
	"verif/harness/gen"
	"verif/harness/refsql"
)

// documented token class characters (sqli_const.go), without the internal
// "none" and the table-only fingerprint marker.
const sqlClassAlphabet = "kUBEtfn1vso&cA(){}.,:;T?X\\"

func isClass(b byte) bool { return strings.IndexByte(sqlClassAlphabet, b) >= 0 }

var sqlQuick = []Mix{
	{Gen: "corpus"}, {Gen: "bytes"}, {Gen: "padded"}, {Gen: "trunc"},
	{Gen: "atoms", Dict: "sqlcore", K: 3},
	{Gen: "atoms", Dict: "sqledge", K: 4},
	{Gen: "atoms", Dict: "sqlext", K: 2},
	{Gen: "seq", Dict: "sqlext", N: 250000},
	{Gen: "mut", Dict: "sqlext", N: 250000},
	{Gen: "novel", Dict: "sqlext", N: 150000},
	{Gen: "wl", N: 100000},
	{Gen: "longtok", N: 20000},
	{Gen: "seam"}, {Gen: "nulpad"}, {Gen: "wrapcount"}, {Gen: "foldalias"}, {Gen: "qualified"}, {Gen: "gluelit"}, {Gen: "encatk"}, {Gen: "dialect"}, {Gen: "prose"}, {Gen: "doubled"}, {Gen: "toktails"},
	{Gen: "scale1", N: 288 << 10},
}

var sqlThorough = []Mix{
	{Gen: "corpus"}, {Gen: "bytes"}, {Gen: "padded", N: 1}, {Gen: "trunc"},
	{Gen: "atoms", Dict: "sqlcore", K: 4},
	{Gen: "atoms", Dict: "sqledge", K: 6},
	{Gen: "atoms", Dict: "sqlmid", K: 5},
	{Gen: "atoms", Dict: "sqlext", K: 3},
	{Gen: "seq", Dict: "sqlext", N: 4000000},
	{Gen: "mut", Dict: "sqlext", N: 4000000},
	{Gen: "novel", Dict: "sqlext", N: 2000000},
	{Gen: "wl", N: 1500000},
	{Gen: "longtok", N: 300000},
	{Gen: "seam", N: 1}, {Gen: "nulpad"}, {Gen: "wrapcount"}, {Gen: "foldalias"}, {Gen: "qualified"}, {Gen: "gluelit"}, {Gen: "encatk"}, {Gen: "dialect"}, {Gen: "prose"}, {Gen: "doubled"}, {Gen: "toktails"},
	{Gen: "scale1", N: 288 << 10}, {Gen: "scale", N: 70000},
}

func sqlPlan(quick, thorough []Mix) func(string, uint64) []core.Unit {
	return func(tier string, seed uint64) []core.Unit {
		if tier == "thorough" {
			return planMix(sqlDomain, thorough)
		}
		return planMix(sqlDomain, quick)
	}
}

func sqlGen(w *core.Worker, u core.Unit, emit func(core.Case)) {
	if genMix(sqlDomain, w, u, emit) {
		return
	}
	switch u.Gen {
	case "wl":
		genWhitelistDirected(w, u, emit)
	case "longtok":
		genLongTokens(w, u, emit)
	case "g03":
		genC03(w, u, func(s string, _ string) { emit(core.Case{In: s}) })
	}
}

// genLongTokens: tokens of length 30..33 and 64 for every lexer, variables
// with 0/1/2 '@', empty strings.
func genLongTokens(w *core.Worker, u core.Unit, emit func(core.Case)) {
	r := core.NewRng(w.R.Seed, "longtok", fmt.Sprint(u.Lo))
	lens := []int{0, 1, 29, 30, 31, 32, 33, 64}
	fill := []string{"a", "1", "_", "\x80", "A", ".", "9"}
	wrap := [][2]string{{"", ""}, {"'", "'"}, {"\"", "\""}, {"`", "`"}, {"@", ""}, {"@@", ""}, {"@`", "`"}, {"@'", "'"}, {"[", "]"}, {"/*", "*/"}, {"--", "\n"}, {"#", "\n"},
		{"$$", "$$"}, {"$t$", "$t$"}, {"q'(", ")'"}, {"n'", "'"}, {"e'", "'"}, {"u&'", "'"}, {"x'", "'"}, {"b'", "'"}, {"0x", ""}, {"0b", ""}, {"1e", ""}, {"1.", ""}, {"$", ""}, {"nq'[", "]'"}, {"{", "}"}}
	ctx := []string{"", " ", "1 ", "select ", "a=", "' or ", "1 union "}
	tail := []string{"", " ", " or 1=1", "--", " union select 1", "a", "'"}
	for i := u.Lo; i < u.Hi; i++ {
		wr := wrap[r.Intn(len(wrap))]
		f := r.Pick(fill)
		if r.Intn(8) == 0 {
			// dollar-quoted literal with a long tag and a closer that is the tag,
			// a prefix of it, an extension or another letter case; little or
			// nothing after the closer (tag limits: 63-letter identifiers)
			L := []int{1, 2, 31, 32, 33, 62, 63, 64, 65, 100, 255, 256}[r.Intn(12)]
			tag := strings.Repeat("tagname", L/7+1)[:L]
			closer := tag
			switch r.Intn(6) {
			case 1:
				if L > 63 {
					closer = tag[:63]
				}
			case 2:
				closer = tag[:L-1]
			case 3:
				closer = tag + "a"
			case 4:
				closer = strings.ToUpper(tag)
			}
			after := []string{"", "x", "xy", " or 1", strings.Repeat("z", L/2)}[r.Intn(5)]
			emit(core.Case{In: r.Pick(ctx) + "$" + tag + "$" + []string{"", "a", "a$b"}[r.Intn(3)] + "$" + closer + "$" + after})
			continue
		}
		n := lens[r.Intn(len(lens))]
		body := strings.Repeat(f, n)
		if r.Intn(4) == 0 && n > 2 {
			// a second filler in the middle
			body = body[:n/2] + r.Pick(fill) + body[n/2+1:]
		}
		emit(core.Case{In: r.Pick(ctx) + wr[0] + body + wr[1] + r.Pick(tail)})
	}
}

// C16 — SQL tokens are faithful ordered slices; scanning progresses.
func c16() *core.Check {
	return &core.Check{
		ID: "C16",
		Rule: "every SQL workload input (corpus, truncations, bounded-exhaustive atoms, sequences, mutation, whitelist shapes, long-token shapes, every family at 288 KiB, few-token inputs of 128 KiB-16 MiB) is tokenised to exhaustion in six modes through the accessor; each trace is checked against the ordering / slice / progress inequalities. " +
			"Non-trivial = the trace holds >= 2 tokens in some mode; distinct by input.",
		Plan: func(tier string, seed uint64) []core.Unit {
			us := sqlPlan(sqlQuick, sqlThorough)(tier, seed)
			return append(us, gen.RangeUnits("hugetok", uint64(len(hugeSizes(tier))*4), 1, tier)...)
		},
		Gen: func(w *core.Worker, u core.Unit, emit func(core.Case)) {
			if u.Gen == "hugetok" {
				// request-body sized inputs made of very few tokens: the scan must
				// still end exactly at the end of the input
				sz := hugeSizes(u.Arg)
				for i := u.Lo; i < u.Hi; i++ {
					n := sz[int(i)/4]
					switch i % 4 {
					case 0:
						emit(core.Case{In: strings.Repeat("a", n) + " 1", Kind: "hugetok"})
					case 1:
						emit(core.Case{In: "1 /*" + strings.Repeat("c", n) + "*/ 2", Kind: "hugetok"})
					case 2:
						emit(core.Case{In: "x '" + strings.Repeat("s", n) + "' y", Kind: "hugetok"})
					default:
						emit(core.Case{In: "1" + strings.Repeat(" ", n) + "2", Kind: "hugetok"})
					}
				}
				return
			}
			sqlGen(w, u, emit)
		},
		One: func(w *core.Worker, c core.Case) {
			s := c.In
			if len(s) > 1<<19 && c.Kind != "hugetok" && c.Kind != "seam" {
				return
			}
			w.Eval(1)
			nt := false
			modes := sqlModes
			if c.Kind == "hugetok" {
				modes = sqlModes[:2]
			}
			for _, m := range modes {
				tr := li.VerifSQLTokens(s, m)
				if msg := checkSQLTrace(s, &tr); msg != "" {
					w.Violate("trace-invariant", "mode "+modeName(m)+": "+msg+"\n"+dumpSQLTrace(&tr))
				}
				if len(tr.Tokens) >= 2 {
					nt = true
				}
				w.Count("tokens_checked", uint64(len(tr.Tokens)))
				for _, t := range tr.Tokens {
					if t.Len == 31 {
						w.Count("clipped_tokens", 1)
					}
				}
				if len(s) <= 64 {
					for i := 0; i+1 < len(tr.Tokens) && i < 6; i++ {
						w.Observe("class_bigrams", string([]byte{tr.Tokens[i].Category, tr.Tokens[i+1].Category}))
					}
				}
			}
			if nt {
				w.Nontrivial(s)
			}
			w.Sample(s)
		},
		Explain: func(c core.Case) string {
			var b strings.Builder
			for _, m := range sqlModes {
				tr := li.VerifSQLTokens(c.In, m)
				fmt.Fprintf(&b, "mode %s final=%d capped=%v\n%s", modeName(m), tr.FinalPos, tr.Capped, dumpSQLTrace(&tr))
			}
			return b.String()
		},
		Assumptions: []string{"the accessor's loop over tokenize() is the same loop the repository's token fixtures use"},
	}
}

func dumpSQLTrace(tr *li.VerifSQLTrace) string {
	var b strings.Builder
	for i, t := range tr.Tokens {
		if i >= 12 {
			b.WriteString("  …\n")
			break
		}
		fmt.Fprintf(&b, "  #%d %c pos=%d len=%d val=%q open=%q close=%q count=%d scan %d->%d\n", i, t.Category, t.Pos, t.Len, t.Val, t.StrOpen, t.StrClose, t.Count, t.Before, t.After)
	}
	return b.String()
}

func checkSQLTrace(s string, tr *li.VerifSQLTrace) string {
	n := len(s)
	if tr.Capped {
		return fmt.Sprintf("step cap hit: more than %d scan steps", n+2)
	}
	if len(tr.Tokens) > n {
		return fmt.Sprintf("%d tokens from %d bytes", len(tr.Tokens), n)
	}
	prevEnd := 0
	for i, t := range tr.Tokens {
		switch {
		case !isClass(t.Category):
			return fmt.Sprintf("token %d: class %q is not a documented class character", i, t.Category)
		case t.Len < 0 || t.Len > 31:
			return fmt.Sprintf("token %d: len %d outside [0,31]", i, t.Len)
		case t.Pos < 0 || t.Pos+t.Len > n:
			return fmt.Sprintf("token %d: [%d,%d) outside the input of length %d", i, t.Pos, t.Pos+t.Len, n)
		case t.Val != s[t.Pos:t.Pos+t.Len]:
			return fmt.Sprintf("token %d: val %q differs from input[%d:%d] = %q", i, t.Val, t.Pos, t.Pos+t.Len, s[t.Pos:t.Pos+t.Len])
		case t.Before > t.Pos:
			return fmt.Sprintf("token %d: starts at %d, before the scan offset %d of its step", i, t.Pos, t.Before)
		case t.Pos+t.Len > t.After:
			return fmt.Sprintf("token %d: ends at %d, after the scan offset %d reached by its step", i, t.Pos+t.Len, t.After)
		case t.After <= t.Before:
			return fmt.Sprintf("token %d: scan step consumed no byte (%d -> %d)", i, t.Before, t.After)
		case t.After > n:
			return fmt.Sprintf("token %d: scan offset %d beyond input length %d", i, t.After, n)
		case t.Pos < prevEnd:
			return fmt.Sprintf("token %d: starts at %d inside the previous token (ends %d)", i, t.Pos, prevEnd)
		}
		prevEnd = t.Pos + t.Len
	}
	if tr.FinalPos != n {
		return fmt.Sprintf("scan ended at offset %d, input length %d", tr.FinalPos, n)
	}
	return ""
}

// live keyword table, fetched once per process.
var kwOnce sync.Once
var kwTable map[string]byte

func keywords() map[string]byte {
	kwOnce.Do(func() { kwTable = li.VerifSQLKeywords() })
	return kwTable
}

func asciiUpper(s string) string {
	b := []byte(s)
	for i, c := range b {
		if c >= 'a' && c <= 'z' {
			b[i] = c - 0x20
		}
	}
	return string(b)
}

// cascade is the documented order of parsing contexts evaluated over
// fresh-state per-pass observations of the real code.
type cascadeResult struct {
	verdict bool
	fp      string
	fired   int // index into cascadeNames, -1 if none
	passes  [5]*li.VerifSQLPass
}

var cascadeNames = []string{"asis/ansi", "asis/mysql", "'/ansi", "'/mysql", "\"/mysql"}

func gate(p *li.VerifSQLPass) bool { return p.StatsCommentDDX != 0 || p.StatsCommentHash != 0 }

func sqlWhiteByte(c byte) bool {
	return c == ' ' || c == '\t' || c == '\n' || c == '\v' || c == '\f' || c == '\r' || c == 0xa0 || c == 0
}

// seenHashOrDDX decides the documented MySQL re-parse gate independently of
// the library's counters: among the tokens the ANSI pass actually lexed (the
// first StatsTokens tokens of the same-mode token stream) there is a '#'
// operator or a "--x" comment (two dashes followed by a non-white byte).
func seenHashOrDDX(s string, mode int, p *li.VerifSQLPass) bool {
	if len(s) > 1<<16 {
		return gate(p)
	}
	// second opinion from the reference lexer (package refsql, written from the
	// documented algorithm): did ITS pass over the same input count a '#' or a
	// "--x"? A library lexer that stops seeing '#' as such (a new "#>" operator)
	// hides it from the token walk below as well.
	if strings.IndexByte(s, '#') >= 0 || strings.Contains(s, "--") {
		if _, _, _, ddx, hash := refsql.FoldOnly(s, refMode(mode), refLookup()); ddx+hash > 0 {
			return true
		}
	}
	tr := li.VerifSQLTokens(s, mode)
	n := p.StatsTokens
	if n > len(tr.Tokens) {
		n = len(tr.Tokens)
	}
	for _, t := range tr.Tokens[:n] {
		if t.Category == 'o' && t.Len == 1 && t.Val == "#" {
			return true
		}
		if t.Category == 'c' && t.Len >= 2 && t.Val[:2] == "--" && t.Pos+2 < len(s) && !sqlWhiteByte(s[t.Pos+2]) {
			return true
		}
	}
	return false
}

func cascade(s string) cascadeResult {
	var r cascadeResult
	r.fired = -1
	if len(s) == 0 {
		return r
	}
	run := func(i int) bool {
		p := li.VerifSQLPassOn(s, sqlModes[[]int{0, 1, 2, 3, 5}[i]])
		r.passes[i] = &p
		if p.Verdict {
			r.verdict, r.fp, r.fired = true, p.Fingerprint, i
			return true
		}
		return false
	}
	if run(0) {
		return r
	}
	if seenHashOrDDX(s, sqlModes[0], r.passes[0]) && run(1) {
		return r
	}
	if strings.IndexByte(s, '\'') >= 0 {
		if run(2) {
			return r
		}
		if seenHashOrDDX(s, sqlModes[2], r.passes[2]) && run(3) {
			return r
		}
	}
	if strings.IndexByte(s, '"') >= 0 && run(4) {
		return r
	}
	return r
}

var c08Quick = []Mix{
	{Gen: "corpus"}, {Gen: "trunc"}, {Gen: "bytes"}, {Gen: "padded"},
	{Gen: "atoms", Dict: "sqlcore", K: 3},
	{Gen: "atoms", Dict: "sqlext", K: 2},
	{Gen: "seq", Dict: "sqlext", N: 300000},
	{Gen: "mut", Dict: "sqlext", N: 300000},
	{Gen: "novel", Dict: "sqlext", N: 200000},
	{Gen: "wl", N: 200000},
	{Gen: "g03", N: 150000},
	{Gen: "scale1", N: 288 << 10},
	{Gen: "seam"}, {Gen: "wrapcount"}, {Gen: "foldalias"}, {Gen: "qualified"}, {Gen: "gluelit"}, {Gen: "encatk"}, {Gen: "dialect"}, {Gen: "prose"}, {Gen: "doubled"}, {Gen: "toktails"}, {Gen: "giant"},
}
var c08Thorough = []Mix{
	{Gen: "corpus"}, {Gen: "trunc"}, {Gen: "bytes"}, {Gen: "padded", N: 1},
	{Gen: "atoms", Dict: "sqlcore", K: 4},
	{Gen: "atoms", Dict: "sqlext", K: 3},
	{Gen: "atoms", Dict: "sqlmid", K: 5},
	{Gen: "seq", Dict: "sqlext", N: 4000000},
	{Gen: "mut", Dict: "sqlext", N: 4000000},
	{Gen: "novel", Dict: "sqlext", N: 2000000},
	{Gen: "wl", N: 2000000},
	{Gen: "g03", N: 2000000},
	{Gen: "scale1", N: 288 << 10}, {Gen: "scale", N: 70000},
	{Gen: "seam", N: 1}, {Gen: "wrapcount"}, {Gen: "foldalias"}, {Gen: "qualified"}, {Gen: "gluelit"}, {Gen: "encatk"}, {Gen: "dialect"}, {Gen: "prose"}, {Gen: "doubled"}, {Gen: "toktails"}, {Gen: "giant", N: 1},
}

// C08 — verdict and fingerprint are mutually consistent.
func c08() *core.Check {
	return &core.Check{
		ID: "C08",
		Rule: "IsSQLi is called on every SQL workload input (incl. attack-grammar members and their near misses, whitelist-boundary shapes, every key of the live keyword table in 8-13 sentence frames); the returned pair is checked against the consistency predicates, the live blacklist and the per-context fingerprints computed on fresh state; every returned fingerprint string is kept as returned and compared with a copy eight positive calls later. " +
			"Non-trivial = distinct (verdict, fingerprint, firing context) triples plus distinct true-verdict inputs.",
		Plan: func(tier string, seed uint64) []core.Unit {
			us := sqlPlan(c08Quick, c08Thorough)(tier, seed)
			// every key of the live keyword table in sentence frames (a re-typed or
			// added table entry reaches the fingerprint through the phrase merge)
			return append(us, core.Unit{Gen: "phrases", Lo: 0, Hi: 1, Arg: tier})
		},
		Gen: func(w *core.Worker, u core.Unit, emit func(core.Case)) {
			if u.Gen == "phrases" {
				genKeywordContexts(u.Arg == "thorough", emit)
				return
			}
			sqlGen(w, u, emit)
		},
		One: func(w *core.Worker, c core.Case) {
			s := c.In
			w.Eval(1)
			if len(s) <= 4096 {
				// the same text in the opposite letter case first (answer ignored): a
				// memo keyed by case-folded text hands its answer to this input, which
				// shows wherever SQL itself is case-sensitive (\N, dollar tags, q-quotes)
				if tw := swapASCIICase(s); tw != s {
					li.IsSQLi(tw)
				}
			}
			b, f := li.IsSQLi(s)
			if len(s) >= 64 {
				// asked again at once: the pair must be the same pair (a memo for
				// repeated inputs that stores more, or less, than it hands out)
				if b2, f2 := li.IsSQLi(s); b2 != b || f2 != f {
					w.Violate("inconsistent-pair", fmt.Sprintf("IsSQLi returned (%v,%q) and, asked again at once, (%v,%q)", b, f, b2, f2))
					return
				}
			}
			if !b {
				if f != "" {
					w.Violate("false-with-fingerprint", fmt.Sprintf("IsSQLi returned (false,%q)", f))
				}
				w.Count("verdict_false", 1)
				if len(s) < 4096 {
					// near-miss observation: which contexts had a blacklisted
					// fingerprint but were whitelisted
					for _, m := range sqlModes[:1] {
						p := li.VerifSQLPassOn(s, m)
						if p.Blacklisted && !p.Verdict {
							w.Count("whitelisted_passes", 1)
							w.Nontrivial("wl|" + p.Fingerprint)
						}
					}
				}
				return
			}
			w.Count("verdict_true", 1)
			// the pair must stay what it was: the string handed out for an earlier
			// input is looked at again eight positives later
			{
				type held struct{ raw, cp, in string }
				ring, _ := w.Local["c08held"].(*[8]held)
				if ring == nil {
					ring = new([8]held)
					w.Local["c08held"] = ring
				}
				n, _ := w.Local["c08n"].(int)
				if h := ring[n%8]; h.raw != "" {
					w.Count("returned_fingerprints_looked_at_again", 1)
					if h.raw != h.cp {
						w.ViolateConfirmed("fingerprint-changed-after-return", fmt.Sprintf("IsSQLi(%q) returned fingerprint %q; after eight later positive calls the same string value reads %q", trunc(h.in, 120), h.cp, h.raw))
					}
				}
				ring[n%8] = held{raw: f, cp: string(append([]byte(nil), f...)), in: s}
				w.Local["c08n"] = n + 1
			}
			msg := ""
			switch {
			case len(f) < 1 || len(f) > 5:
				msg = fmt.Sprintf("fingerprint %q has length %d, want 1..5", f, len(f))
			default:
				for i := 0; i < len(f); i++ {
					if !isClass(f[i]) {
						msg = fmt.Sprintf("fingerprint %q: %q is not a token class", f, f[i])
					}
					if f[i] == 'c' && i != len(f)-1 {
						msg = fmt.Sprintf("fingerprint %q carries the comment class before the last position", f)
					}
				}
			}
			if msg == "" {
				if v, ok := keywords()["0"+asciiUpper(f)]; !ok || v != 'F' {
					msg = fmt.Sprintf("fingerprint %q: key %q is not a fingerprint entry of the live table", f, "0"+asciiUpper(f))
				}
			}
			fired := -1
			if msg == "" {
				found := false
				for i, m := range []int{0, 1, 2, 3, 5} {
					p := li.VerifSQLPassOn(s, sqlModes[m])
					if p.Fingerprint == f {
						found = true
						if fired < 0 && p.Verdict {
							fired = i
						}
					}
				}
				if !found {
					msg = fmt.Sprintf("fingerprint %q is not the fingerprint of the input in any of the five contexts", f)
				}
			}
			if msg != "" {
				w.Violate("inconsistent-pair", fmt.Sprintf("IsSQLi returned (true,%q): %s", f, msg))
				return
			}
			w.Observe("fingerprints_returned", f)
			w.Nontrivial(fmt.Sprintf("t|%s|%d", f, fired))
			w.Nontrivial("in|" + s)
			if fired >= 0 {
				w.Count("fired_"+cascadeNames[fired], 1)
			}
			if len(f) == 1 {
				w.Count("single_char_fingerprints", 1)
			}
			w.Sample(s)
		},
		Explain: func(c core.Case) string {
			b, f := li.IsSQLi(c.In)
			out := fmt.Sprintf("IsSQLi = (%v,%q)\n", b, f)
			for i, m := range []int{0, 1, 2, 3, 5} {
				p := li.VerifSQLPassOn(c.In, sqlModes[m])
				out += fmt.Sprintf("  %s: fingerprint %q blacklisted=%v verdict=%v\n", cascadeNames[i], p.Fingerprint, p.Blacklisted, p.Verdict)
			}
			return out
		},
	}
}

// C12 — IsSQLi equals the disjunction of its documented parsing contexts.
func c12() *core.Check {
	return &core.Check{
		ID: "C12",
		Rule: "for every SQL workload input: (a) IsSQLi is compared with the documented cascade evaluated over fresh-state per-context observations (the MySQL gate is decided from the tokens the ANSI pass lexed - a '#' operator or a '--x' comment - or from the reference lexer's own count for that pass); (a') a flood of 24 M (thorough 400 M) pairwise distinct inputs of equal length (24-1024 bytes; attack and benign templates with random filler, 16 goroutines), each answer compared with its template's cascade answer and, on disagreement, with the cascade of that input: an answer remembered under a lossy key (up to about 32 bits) is handed to another input here; (c) all five readings run in cascade order on one re-used state (build-tagged accessor that walks the state the way check() does) are compared, reading by reading, with the same readings on fresh states; (b) for q in {',\"} and both dialects the fingerprint, verdict (unless sos/s&s) and token stream of reading s inside q are compared with reading q+s as-is. " +
			"Non-trivial = distinct inputs whose firing context is not the first, or whose quote-context token stream has >= 2 tokens.",
		Plan: func(tier string, seed uint64) []core.Unit {
			us := sqlPlan(c08Quick, c08Thorough)(tier, seed)
			n := uint64(24000000)
			if tier == "thorough" {
				n = 400000000
			}
			return append(us, gen.RangeUnits("flood", n, 200000, "")...)
		},
		Gen: func(w *core.Worker, u core.Unit, emit func(core.Case)) {
			if u.Gen == "flood" {
				genFlood(w, u, emit)
				return
			}
			sqlGen(w, u, emit)
		},
		One: func(w *core.Worker, c core.Case) {
			s := c.In
			if len(s) > 1<<19 && c.Kind != "seam" {
				return
			}
			w.Eval(1)
			b, f := li.IsSQLi(s)
			if c.Kind == "flood" {
				// pre-filter: the template's answer (computed over fresh-state passes
				// on its first instance); only a disagreement pays for the cascade
				if b == (c.A == 1) && f == c.S {
					w.Count("flood_calls_agreeing_with_template", 1)
					w.Nontrivial(s)
					return
				}
				r := cascade(s)
				if b != r.verdict || f != r.fp {
					w.ViolateConfirmed("cascade-mismatch", fmt.Sprintf("IsSQLi = (%v,%q) in a process that has answered millions of other same-length inputs; documented cascade over fresh-state passes = (%v,%q) fired=%d (one call in a fresh process may answer correctly: the answer depends on earlier calls)\n%s", b, f, r.verdict, r.fp, r.fired, explainCascade(&r)))
				} else {
					w.Count("flood_instances_differing_from_template", 1)
				}
				return
			}
			r := cascade(s)
			if b != r.verdict || f != r.fp {
				w.Violate("cascade-mismatch", fmt.Sprintf("IsSQLi = (%v,%q); documented cascade over fresh-state passes = (%v,%q) fired=%d\n%s", b, f, r.verdict, r.fp, r.fired, explainCascade(&r)))
			}
			if r.fired >= 0 {
				w.Count("fired_"+cascadeNames[r.fired], 1)
				if r.fired > 0 {
					w.Nontrivial("late|" + s)
				}
			} else {
				w.Count("fired_none", 1)
			}
			for i, p := range r.passes {
				if p != nil && gate(p) && (i == 0 || i == 2) {
					w.Count("mysql_gate_open", 1)
				}
			}
			if s == "" {
				return
			}
			// (c) each reading is independent of the readings tried before it:
			// all five readings in cascade order on ONE state (the way check()
			// re-uses its state) against the same readings on fresh states
			if len(s) <= 1<<14 {
				order := []int{sqlModes[0], sqlModes[1], sqlModes[2], sqlModes[3], sqlModes[5]}
				seq := li.VerifSQLPassSeq(s, order)
				for i := range seq {
					fr := r.passes[i]
					if fr == nil {
						p := li.VerifSQLPassOn(s, order[i])
						fr = &p
					}
					q := &seq[i]
					if q.Fingerprint != fr.Fingerprint || q.Verdict != fr.Verdict || q.StatsTokens != fr.StatsTokens || q.StatsFolds != fr.StatsFolds || q.StatsCommentDDX != fr.StatsCommentDDX || q.StatsCommentHash != fr.StatsCommentHash {
						w.Violate("reading-depends-on-earlier-readings", fmt.Sprintf("reading %s after the readings before it on the same state: fingerprint %q verdict=%v tokens=%d folds=%d ddx=%d hash=%d; on a fresh state: fingerprint %q verdict=%v tokens=%d folds=%d ddx=%d hash=%d",
							cascadeNames[i], q.Fingerprint, q.Verdict, q.StatsTokens, q.StatsFolds, q.StatsCommentDDX, q.StatsCommentHash, fr.Fingerprint, fr.Verdict, fr.StatsTokens, fr.StatsFolds, fr.StatsCommentDDX, fr.StatsCommentHash))
						break
					}
				}
				w.Count("five_reading_sequences_compared", 1)
			}
			// (b) quote equivalence
			for _, q := range []struct {
				ch   string
				flag int
			}{{"'", li.VerifSQLFlagQuoteSingle}, {"\"", li.VerifSQLFlagQuoteDouble}} {
				for _, d := range []int{li.VerifSQLFlagAnsi, li.VerifSQLFlagMysql} {
					in := li.VerifSQLPassOn(s, q.flag|d)
					as := li.VerifSQLPassOn(q.ch+s, li.VerifSQLFlagQuoteNone|d)
					if in.Fingerprint != as.Fingerprint {
						w.Violate("quote-equivalence", fmt.Sprintf("fingerprint of s inside %s (%s) = %q, fingerprint of %s+s as-is = %q", q.ch, modeName(q.flag|d), in.Fingerprint, q.ch, as.Fingerprint))
					} else if in.Verdict != as.Verdict && in.Fingerprint != "sos" && in.Fingerprint != "s&s" {
						w.Violate("quote-equivalence", fmt.Sprintf("fingerprint %q: verdict inside %s = %v, verdict of %s+s as-is = %v", in.Fingerprint, q.ch, in.Verdict, q.ch, as.Verdict))
					}
					if in.StatsTokens != as.StatsTokens || in.StatsFolds != as.StatsFolds || in.StatsCommentDDX != as.StatsCommentDDX || in.StatsCommentHash != as.StatsCommentHash {
						w.Violate("quote-equivalence", fmt.Sprintf("statistics differ between s inside %s and %s+s as-is (%s): tokens %d/%d folds %d/%d ddx %d/%d hash %d/%d", q.ch, q.ch, modeName(q.flag|d),
							in.StatsTokens, as.StatsTokens, in.StatsFolds, as.StatsFolds, in.StatsCommentDDX, as.StatsCommentDDX, in.StatsCommentHash, as.StatsCommentHash))
					}
					if len(s) <= 2048 {
						t1 := li.VerifSQLTokens(s, q.flag|d)
						t2 := li.VerifSQLTokens(q.ch+s, li.VerifSQLFlagQuoteNone|d)
						if msg := compareShifted(&t1, &t2); msg != "" {
							w.Violate("quote-equivalence", fmt.Sprintf("token streams differ (%s): %s\ninside:\n%sas-is:\n%s", modeName(q.flag|d), msg, dumpSQLTrace(&t1), dumpSQLTrace(&t2)))
						}
						if len(t1.Tokens) >= 2 {
							w.Nontrivial("q|" + s)
						}
						w.Count("quote_pairs_compared", 1)
					}
				}
			}
			w.Sample(s)
		},
		Explain: func(c core.Case) string {
			b, f := li.IsSQLi(c.In)
			r := cascade(c.In)
			return fmt.Sprintf("IsSQLi = (%v,%q); cascade = (%v,%q)\n%s", b, f, r.verdict, r.fp, explainCascade(&r))
		},
		Assumptions: []string{"the cascade order and gates are my statement of the documented behaviour; each element is an observation of the real code on a fresh state"},
	}
}

func explainCascade(r *cascadeResult) string {
	var b strings.Builder
	for i, p := range r.passes {
		if p == nil {
			fmt.Fprintf(&b, "  %-10s not tried\n", cascadeNames[i])
			continue
		}
		fmt.Fprintf(&b, "  %-10s fingerprint %q blacklisted=%v verdict=%v tokens=%d folds=%d ddx=%d hash=%d\n", cascadeNames[i], p.Fingerprint, p.Blacklisted, p.Verdict, p.StatsTokens, p.StatsFolds, p.StatsCommentDDX, p.StatsCommentHash)
	}
	return b.String()
}

func compareShifted(in, as *li.VerifSQLTrace) string {
	if len(in.Tokens) != len(as.Tokens) {
		return fmt.Sprintf("%d tokens inside the quote, %d tokens as-is", len(in.Tokens), len(as.Tokens))
	}
	for i := range in.Tokens {
		a, b := in.Tokens[i], as.Tokens[i]
		if a.Category != b.Category || a.Len != b.Len || a.Val != b.Val || a.StrClose != b.StrClose || a.Count != b.Count || a.Pos+1 != b.Pos || a.After+1 != b.After {
			return fmt.Sprintf("token %d differs", i)
		}
		if i > 0 && a.StrOpen != b.StrOpen {
			return fmt.Sprintf("token %d: open mark differs", i)
		}
	}
	if in.FinalPos+1 != as.FinalPos {
		return "final scan offsets differ"
	}
	return ""
}

// genFlood: pairwise distinct inputs of one length per unit, alternating
// attack and benign templates; A/S carry the template's cascade answer.
func genFlood(w *core.Worker, u core.Unit, emit func(core.Case)) {
	lens := []int{320, 256, 96, 24, 64, 257, 1024, 48}
	L := lens[int(u.Lo/200000)%len(lens)]
	r := core.NewRng(w.R.Seed, "flood", fmt.Sprint(u.Lo))
	const alnum = "abcdefghijklmnopqrstuvwxyz0123456789ABCDEFGHIJKLMNOPQRSTUVWXYZ"
	tmpls := []string{"1' or 1=1 -- %", "%", "x%' or 1=1 -- ", "hello % world", "1 union select 1,2 -- %", "% %"}
	type exp struct {
		v  int64
		fp string
	}
	exps := make([]*exp, len(tmpls))
	buf := make([]byte, 0, L)
	for i := u.Lo; i < u.Hi; i++ {
		ti := int(i % uint64(len(tmpls)))
		t := tmpls[ti]
		k := strings.IndexByte(t, '%')
		fill := L - (len(t) - strings.Count(t, "%"))
		if fill < 8 {
			continue
		}
		buf = buf[:0]
		buf = append(buf, t[:k]...)
		for j := 0; j < fill; j++ {
			if t == "% %" && j == fill/2 {
				buf = append(buf, ' ')
				continue
			}
			buf = append(buf, alnum[r.Intn(len(alnum))])
		}
		if t != "% %" {
			buf = append(buf, t[k+1:]...)
		}
		in := string(buf)
		if exps[ti] == nil {
			c := cascade(in)
			e := &exp{fp: c.fp}
			if c.verdict {
				e.v = 1
			}
			exps[ti] = e
		}
		emit(core.Case{In: in, Kind: "flood", A: exps[ti].v, S: exps[ti].fp})
	}
}

func swapASCIICase(s string) string {
	b := []byte(s)
	ch := false
	for i, c := range b {
		if c >= 'a' && c <= 'z' || c >= 'A' && c <= 'Z' {
			b[i] = c ^ 0x20
			ch = true
		}
	}
	if !ch {
		return s
	}
	return string(b)
}
