package mon

import (
	"encoding/json"
	"fmt"
	"os"
	"path/filepath"
	"sort"
	"strings"
	"sync"

	li "github.com/corazawaf/libinjection-go"

	"verif/harness/core"
	"verif/harness/gen"
)

// Baseline is the snapshot of the five shipped tables taken once from the
// pinned tree (baseline/tables.json).
type Baseline struct {
	Keywords map[string]string `json:"keywords"` // key -> class char
	Tags     []string          `json:"tags"`
	Attrs    map[string]int    `json:"attrs"`
	Events   map[string]int    `json:"events"`
}

func liveTables() Baseline {
	b := Baseline{Keywords: map[string]string{}, Attrs: map[string]int{}, Events: map[string]int{}}
	for k, v := range li.VerifSQLKeywords() {
		b.Keywords[k] = string([]byte{v})
	}
	b.Tags = li.VerifBlackTags()
	for _, a := range li.VerifBlacks() {
		b.Attrs[a.Name] = a.Type
	}
	for _, e := range li.VerifBlackEvents() {
		b.Events[e.Name] = e.Type
	}
	return b
}

// tablesDigest: order-independent digest of everything in the five shared
// tables plus the hex map, for "unchanged at a later quiescent point" checks.
func tablesDigest() (uint64, int) {
	var sum uint64
	n := 0
	add := func(k string) {
		sum += core.Hash64(k) | 1
		n++
	}
	for k, v := range li.VerifSQLKeywords() {
		add("kw|" + k + "|" + string([]byte{v}))
	}
	for i, t := range li.VerifBlackTags() {
		add(fmt.Sprintf("tag|%d|%s", i, t))
	}
	for i, a := range li.VerifBlacks() {
		add(fmt.Sprintf("attr|%d|%s|%d", i, a.Name, a.Type))
	}
	for i, e := range li.VerifBlackEvents() {
		add(fmt.Sprintf("ev|%d|%s|%d", i, e.Name, e.Type))
	}
	for i, h := range li.VerifHexMap() {
		add(fmt.Sprintf("hex|%d|%d", i, h))
	}
	return sum, n
}

// SnapshotTables writes the live tables as the baseline (construction tool).
func SnapshotTables(path string) error {
	b := liveTables()
	sort.Strings(b.Tags)
	data, err := json.MarshalIndent(&b, "", " ")
	if err != nil {
		return err
	}
	return os.WriteFile(path, append(data, '\n'), 0o644)
}

func hasLowerOrNul(s string) bool {
	for i := 0; i < len(s); i++ {
		if s[i] == 0 || s[i] >= 'a' && s[i] <= 'z' {
			return true
		}
	}
	return strings.ToUpper(s) != s
}

// C20 — shipped tables well-formed, baseline never lost. The tables are
// finite and are enumerated completely at a quiescent point (after package
// initialisation), then every entry is exercised through the real look-up.
// c20ColdVerify: after the concurrent first calls of a cold-start child, every
// baseline tag / attribute / event must still be listed and found.
func c20ColdVerify() string {
	var base Baseline
	data, err := os.ReadFile(filepath.Join(verifDir(), "baseline", "tables.json"))
	if err != nil || json.Unmarshal(data, &base) != nil {
		return ""
	}
	live := liveTables()
	for n, ty := range base.Events {
		if lt, ok := live.Events[n]; !ok || lt != ty {
			return fmt.Sprintf("event %q of the pinned baseline is no longer in the live table", n)
		}
		if got := li.VerifIsBlackAttr("on" + strings.ToLower(n)); got != ty {
			return fmt.Sprintf("event %q is listed but on%s is classified %d", n, strings.ToLower(n), got)
		}
	}
	for n, ty := range base.Attrs {
		if lt, ok := live.Attrs[n]; !ok || lt != ty {
			return fmt.Sprintf("black attribute %q of the pinned baseline is no longer in the live table", n)
		}
		if got := li.VerifIsBlackAttr(strings.ToLower(n)); got != ty {
			return fmt.Sprintf("black attribute %q is listed with type %d but the look-up returns %d", n, ty, got)
		}
	}
	for _, t := range base.Tags {
		if !li.VerifIsBlackTag(strings.ToLower(t)) {
			return fmt.Sprintf("black tag %q is no longer found", t)
		}
	}
	for k, v := range base.Keywords {
		if lv, ok := live.Keywords[k]; !ok || lv != v {
			return fmt.Sprintf("SQL table entry %q (%s) of the pinned baseline is missing or changed (%s)", k, v, lv)
		}
	}
	return ""
}

func c20() *core.Check {
	return &core.Check{
		ID:         "C20",
		Exhaustive: true,
		// first-use probes: 16 goroutines make the process's first look-ups at
		// once, then the tables are compared with the baseline
		Spice: []string{"<a onclick=x>", "<a onbeforeinput=x>", "<a oncontextmenu=x>", "<a onzoom=x>", "<a onabort=x>", "<a onwebkitplaybacktargetavailabilitychanged=x>", "<a href=javascript:x>", "<script>", "<a style=x>", "1 union select 1", "1 or sleep(5)", "x' group by 1 --", "<a onpointerenter=x>", "<a onload=x>", "<a onerror=x>", "<a onfocus=x>"},
		SpiceCall: func(s string) {
			li.IsXSS(s)
			li.IsSQLi(s)
		},
		ColdStartVerify: c20ColdVerify,
		Rule: "all entries of the five live tables (read through the accessors after package initialisation) are checked against the well-formedness predicates; every entry of baseline/tables.json (snapshot of the pinned tree) must be present with the same classification; every baseline entry is additionally exercised through the real look-up path (isBlackTag / isBlackAttr per name, token class per keyword, every multi-word key through the folder's merge in four probe frames and with every white-space byte / comment between its words, every single-word key also between length-changing runes, glued to a 40-byte tail, and 65536 bytes behind an equally long word, every function name inside back quotes and every dotted key as a qualifier before a further dot or back quote; every event, attribute and tag name through IsXSS with runs of 1-300 NULs inside the name), once in the fresh process and once more after five look-alikes of every name went through the same look-ups; the tables are digested again at a second quiescent point after ~30 000 calls over the corpus, every tag, event and keyword, and must be unchanged. Before that, six fresh processes make their first look-ups from 16 goroutines at once and compare the tables with the baseline (a table sorted or normalised lazily on first use). Finite and enumerated completely. " +
			"Non-trivial = every table entry; distinct by table+key.",
		Plan: func(tier string, seed uint64) []core.Unit { return []core.Unit{{Gen: "tables", Lo: 0, Hi: 1}} },
		Gen: func(w *core.Worker, u core.Unit, emit func(core.Case)) {
			emit(core.Case{Kind: "tables"})
		},
		One: func(w *core.Worker, c core.Case) {
			live := liveTables()
			var base Baseline
			data, err := os.ReadFile(filepath.Join(verifDir(), "baseline", "tables.json"))
			if err != nil || json.Unmarshal(data, &base) != nil {
				w.R.Inconclusive("baseline/tables.json unreadable")
				return
			}
			bad := func(kind, msg string) {
				w.Violate(kind, msg)
			}
			// well-formedness of the SQL table
			for k, v := range live.Keywords {
				w.Eval(1)
				w.Nontrivial("kw|" + k)
				cls := v[0]
				switch {
				case strings.ToUpper(k) != k:
					bad("malformed-entry", fmt.Sprintf("keyword key %q is not upper-case: the case-folding look-up can never reach it", k))
				case len(k) > 31:
					bad("malformed-entry", fmt.Sprintf("keyword key %q is %d bytes long; words of 32+ bytes are never looked up and tokens are clipped to 31", k, len(k)))
				case len(k) == 0:
					bad("malformed-entry", "empty keyword key")
				}
				if cls == 'F' {
					ok := len(k) >= 2 && len(k) <= 6 && k[0] == '0'
					for i := 1; ok && i < len(k); i++ {
						if !isClass(k[i]) || k[i] >= 'a' && k[i] <= 'z' {
							// class characters appear upper-cased in keys
							if !(k[i] >= 'A' && k[i] <= 'Z' && isClass(k[i]|0x20)) {
								ok = false
							}
						}
					}
					if !ok {
						bad("malformed-entry", fmt.Sprintf("fingerprint key %q is not '0' followed by 1-5 (upper-cased) class characters", k))
					}
					w.Count("fingerprints", 1)
				} else {
					if !isClass(cls) || cls == 'X' || cls == '?' {
						bad("malformed-entry", fmt.Sprintf("keyword %q has value %q, not a token class", k, cls))
					}
					if cls == 'f' && len(k) < 2 {
						bad("malformed-entry", fmt.Sprintf("function name %q has fewer than two characters (the ;IF rule indexes val[1])", k))
					}
					if k[0] == '0' && len(k) <= 6 {
						bad("malformed-entry", fmt.Sprintf("non-fingerprint key %q looks like a fingerprint key", k))
					}
					w.Count("keywords", 1)
				}
			}
			for _, t := range live.Tags {
				w.Eval(1)
				w.Nontrivial("tag|" + t)
				if hasLowerOrNul(t) || t == "" {
					bad("malformed-entry", fmt.Sprintf("black tag %q is not upper-case and NUL-free", t))
				}
				if len(t) < 3 {
					bad("malformed-entry", fmt.Sprintf("black tag %q is shorter than 3 bytes; isBlackTag never compares such names", t))
				}
			}
			for n, ty := range live.Attrs {
				w.Eval(1)
				w.Nontrivial("attr|" + n)
				if hasLowerOrNul(n) || len(n) < 2 {
					bad("malformed-entry", fmt.Sprintf("black attribute %q is not upper-case, NUL-free and at least 2 bytes", n))
				}
				if ty < attrBlack || ty > attrIndirect {
					bad("malformed-entry", fmt.Sprintf("black attribute %q has type %d", n, ty))
				}
			}
			for n, ty := range live.Events {
				w.Eval(1)
				w.Nontrivial("event|" + n)
				if hasLowerOrNul(n) || n == "" {
					bad("malformed-entry", fmt.Sprintf("event name %q is not upper-case and NUL-free", n))
				}
				if len(n) < 3 {
					bad("malformed-entry", fmt.Sprintf("event name %q is shorter than 3 bytes; on-names shorter than 5 are never compared", n))
				}
				if ty != attrBlack {
					bad("malformed-entry", fmt.Sprintf("event %q has type %d", n, ty))
				}
			}
			if len(li.VerifHexMap()) != 256 {
				bad("malformed-entry", fmt.Sprintf("hex decode map has %d entries", len(li.VerifHexMap())))
			}
			// baseline preservation + reachability through the real look-up
			for k, v := range base.Keywords {
				w.Eval(1)
				lv, ok := live.Keywords[k]
				if !ok {
					bad("baseline-entry-lost", fmt.Sprintf("SQL table entry %q (%s) of the pinned baseline is missing", k, v))
					continue
				}
				if lv != v {
					bad("baseline-entry-lost", fmt.Sprintf("SQL table entry %q was %s in the pinned baseline and is %s now", k, v, lv))
					continue
				}
				if msg := exerciseKeyword(k, v[0]); msg != "" {
					bad("entry-unreachable", msg)
				}
				w.Count("baseline_sql_entries_exercised", 1)
			}
			liveTag := map[string]bool{}
			for _, t := range live.Tags {
				liveTag[t] = true
			}
			for _, t := range base.Tags {
				w.Eval(1)
				if !liveTag[t] {
					bad("baseline-entry-lost", fmt.Sprintf("black tag %q of the pinned baseline is missing", t))
					continue
				}
				if !li.VerifIsBlackTag(strings.ToLower(t)) || !li.IsXSS("<"+strings.ToLower(t)+">") {
					bad("entry-unreachable", fmt.Sprintf("black tag %q is listed but <%s> is not detected", t, strings.ToLower(t)))
				}
			}
			for n, ty := range base.Attrs {
				w.Eval(1)
				if lt, ok := live.Attrs[n]; !ok || lt != ty {
					bad("baseline-entry-lost", fmt.Sprintf("black attribute %q (type %d) of the pinned baseline is missing or re-typed (now %d, present=%v)", n, ty, lt, ok))
					continue
				}
				if got := li.VerifIsBlackAttr(strings.ToLower(n)); got != ty {
					bad("entry-unreachable", fmt.Sprintf("black attribute %q is listed with type %d but the look-up returns %d", n, ty, got))
				}
			}
			for n, ty := range base.Events {
				w.Eval(1)
				if lt, ok := live.Events[n]; !ok || lt != ty {
					bad("baseline-entry-lost", fmt.Sprintf("event %q of the pinned baseline is missing or re-typed", n))
					continue
				}
				if got := li.VerifIsBlackAttr("on" + strings.ToLower(n)); got != ty {
					bad("entry-unreachable", fmt.Sprintf("event %q is listed but on%s is classified %d", n, strings.ToLower(n), got))
				}
				if !li.IsXSS("<a on" + strings.ToLower(n) + "=x>") {
					bad("entry-unreachable", fmt.Sprintf("event %q is listed but <a on%s=x> is not detected", n, strings.ToLower(n)))
				}
				// the name as the tokenizer may hand it over: NULs (ignored by the
				// look-up) after any of its bytes, 1 to 300 of them
				name := "on" + strings.ToLower(n)
				for _, run := range []int{1, 40, 45, 64, 300} {
					at := 1 + (len(n)+run)%(len(name)-1)
					in := "<a " + name[:at] + strings.Repeat("\x00", run) + name[at:] + "=x>"
					if !li.IsXSS(in) {
						bad("entry-unreachable", fmt.Sprintf("event %q is listed but %q (%d NULs inside the name) is not detected", n, in, run))
						break
					}
				}
			}
			for n, ty := range base.Attrs {
				if lt, ok := live.Attrs[n]; !ok || lt != ty || ty == 0 || len(n) < 2 {
					continue
				}
				name := strings.ToLower(n)
				for _, run := range []int{0, 1, 45, 64, 300} {
					at := 1 + (len(n)+run)%(len(name)-1)
					in := "<a " + name[:at] + strings.Repeat("\x00", run) + name[at:] + "=" + []string{"", "x", "javascript:x", "x", "onclick"}[ty%5] + ">"
					if !li.IsXSS(in) {
						bad("entry-unreachable", fmt.Sprintf("black attribute %q is listed with type %d but %q is not detected", n, ty, in))
						break
					}
				}
			}
			for _, t := range base.Tags {
				if !liveTag[t] || len(t) < 2 {
					continue
				}
				name := strings.ToLower(t)
				for _, run := range []int{1, 45, 64, 300} {
					at := 1 + (len(t)+run)%(len(name)-1)
					in := "<" + name[:at] + strings.Repeat("\x00", run) + name[at:] + ">"
					if !li.IsXSS(in) {
						bad("entry-unreachable", fmt.Sprintf("black tag %q is listed but %q is not detected", t, in))
						break
					}
				}
			}
			// the same look-ups again after every name's look-alikes (same length with
			// the last or first letter changed, one letter more, one less) went
			// through them: a memo or cache keyed by a truncated or folded name
			// answers the real entry with its look-alike's "not listed"
			alike := func(n string) []string {
				l := strings.ToLower(n)
				if len(l) < 2 {
					return nil
				}
				sub := byte('q')
				if l[len(l)-1] == 'q' {
					sub = 'z'
				}
				return []string{l[:len(l)-1] + string([]byte{sub}), string([]byte{sub}) + l[1:], l + "x", l[:len(l)-1], l[:len(l)/2] + string([]byte{sub}) + l[len(l)/2+1:]}
			}
			for _, t := range base.Tags {
				for _, a := range alike(t) {
					li.VerifIsBlackTag(a)
					li.IsXSS("<" + a + ">")
				}
			}
			for n := range base.Attrs {
				for _, a := range alike(n) {
					li.VerifIsBlackAttr(a)
					li.IsXSS("<a " + a + "=x>")
				}
			}
			for n := range base.Events {
				for _, a := range alike(n) {
					li.VerifIsBlackAttr("on" + a)
					li.IsXSS("<a on" + a + "=x>")
				}
			}
			for k, v := range base.Keywords {
				if v[0] != 'F' && !strings.Contains(k, " ") {
					for _, a := range alike(k) {
						li.VerifSQLTokens(a, li.VerifSQLFlagQuoteNone|li.VerifSQLFlagAnsi)
						li.IsSQLi("1 " + a + " 1")
					}
				}
			}
			for _, t := range base.Tags {
				w.Eval(1)
				if liveTag[t] && (!li.VerifIsBlackTag(strings.ToLower(t)) || !li.IsXSS("<"+strings.ToLower(t)+">")) {
					bad("entry-unreachable", fmt.Sprintf("black tag %q is listed but <%s> is no longer detected after its look-alikes were looked up", t, strings.ToLower(t)))
				}
			}
			for n, ty := range base.Attrs {
				w.Eval(1)
				if lt, ok := live.Attrs[n]; ok && lt == ty {
					if got := li.VerifIsBlackAttr(strings.ToLower(n)); got != ty {
						bad("entry-unreachable", fmt.Sprintf("black attribute %q is listed with type %d but the look-up returns %d after its look-alikes were looked up", n, ty, got))
					}
				}
			}
			for n, ty := range base.Events {
				w.Eval(1)
				if lt, ok := live.Events[n]; ok && lt == ty {
					if got := li.VerifIsBlackAttr("on" + strings.ToLower(n)); got != ty || !li.IsXSS("<a on"+strings.ToLower(n)+"=x>") {
						bad("entry-unreachable", fmt.Sprintf("event %q is listed but on%s is classified %d (or <a on%s=x> not detected) after its look-alikes were looked up", n, strings.ToLower(n), got, strings.ToLower(n)))
					}
				}
			}
			for k, v := range base.Keywords {
				if lv, ok := live.Keywords[k]; ok && lv == v {
					if msg := exerciseKeyword(k, v[0]); msg != "" {
						bad("entry-unreachable", msg+" (after its look-alikes were looked up)")
					}
				}
			}
			w.Count("look_alike_rounds", 1)
			// second quiescent point: after a workload that drives both
			// detectors over the corpus and seeds the tables must be unchanged
			d0, n0 := tablesDigest()
			calls := 0
			for rep := 0; rep < 2; rep++ {
				for _, in := range gen.CorpusSQL() {
					li.IsSQLi(in)
					li.IsXSS(in)
					calls += 2
				}
				for _, in := range gen.CorpusHTML() {
					li.IsXSS(in)
					li.IsSQLi(in)
					calls += 2
				}
				for _, t := range live.Tags {
					li.IsXSS("<" + strings.ToLower(t) + " x=y>")
					calls++
				}
				for n := range live.Events {
					li.IsXSS("<a on" + strings.ToLower(n) + "=x>")
					calls++
				}
				for k, v := range live.Keywords {
					if v != "F" {
						li.IsSQLi("1 " + strings.ToLower(k) + " 1")
						calls++
					}
				}
			}
			d1, n1 := tablesDigest()
			w.Count("calls_between_quiescent_points", uint64(calls))
			if d0 != d1 || n0 != n1 {
				live2 := liveTables()
				what := "digest differs"
				for k, v := range live.Keywords {
					if v2, ok := live2.Keywords[k]; !ok || v2 != v {
						what = fmt.Sprintf("SQL entry %q was %s and is %q (present=%v) after the workload", k, v, v2, ok)
						break
					}
				}
				for k := range live2.Keywords {
					if _, ok := live.Keywords[k]; !ok {
						what = fmt.Sprintf("SQL entry %q appeared after the workload", k)
						break
					}
				}
				for i, t := range live2.Tags {
					if i >= len(live.Tags) || live.Tags[i] != t {
						what = fmt.Sprintf("black tag list changed at index %d (%q)", i, t)
						break
					}
				}
				for k, v := range live.Attrs {
					if live2.Attrs[k] != v {
						what = fmt.Sprintf("black attribute %q changed type %d -> %d", k, v, live2.Attrs[k])
					}
				}
				for k, v := range live.Events {
					if v2, ok := live2.Events[k]; !ok || v2 != v {
						what = fmt.Sprintf("event %q changed (present=%v)", k, ok)
					}
				}
				bad("table-changed-at-runtime", fmt.Sprintf("the shared tables differ between two quiescent points (%d -> %d entries, %d calls in between): %s", n0, n1, calls, what))
			}
			w.Count("baseline_keywords", uint64(len(base.Keywords)))
			w.Count("baseline_tags", uint64(len(base.Tags)))
			w.Count("baseline_attrs", uint64(len(base.Attrs)))
			w.Count("baseline_events", uint64(len(base.Events)))
			w.Count("live_keywords", uint64(len(live.Keywords)))
			w.Sample("sqlKeywords[\"UNION ALL\"]=" + live.Keywords["UNION ALL"])
			w.Sample("sqlKeywords[\"0S&1\"]=" + live.Keywords["0S&1"])
		},
		Explain: func(c core.Case) string { return "table check; see detail" },
	}
}

// exerciseKeyword drives a baseline entry through the real look-up code.
func exerciseKeyword(k string, cls byte) string {
	lower := strings.ToLower(k)
	if cls == 'F' {
		// the fingerprint must be found by the real blacklist probe, in the
		// upper-cased form of the key and in the lower-cased form fingerprints have
		if len(k) >= 2 {
			if !li.VerifSQLBlacklisted(k[1:]) || !li.VerifSQLBlacklisted(lower[1:]) {
				return fmt.Sprintf("fingerprint entry %q is in the table but the blacklist probe does not find %q / %q", k, k[1:], lower[1:])
			}
		}
		return ""
	}
	if false {
		// the fingerprint must be found by the blacklist probe: build the
		// fingerprint string and ask through a pass whose fingerprint equals it.
		// Cheap direct probe: VerifSQLPassOn on an input cannot force an
		// arbitrary fingerprint, so reachability is checked at table level:
		// the probe key is "0"+upper(fp), which equals k by well-formedness.
		return ""
	}
	if strings.ContainsAny(k, " ") {
		// phrase: merged by the folder from its components. It must come out as
		// one token with the table's class in one of four frames, unless the
		// pinned tree itself never produced it (baseline/phrases_unreachable.txt)
		if phraseExempt()[k] {
			return ""
		}
		// the words may be separated by any white-space byte, by several, or by a comment
		for _, sep := range []string{" ", "\t", "\n", "\r", "\v", "\f", "\xa0", "\x00", "  ", " \t ", "/**/", " /*x*/ "} {
			spelled := strings.ReplaceAll(lower, " ", sep)
			found := false
			for _, frame := range []string{"%s 1", "1 %s 1", "select %s x", "x %s y"} {
				tr := li.VerifSQLFold(fmt.Sprintf(frame, spelled), li.VerifSQLFlagQuoteNone|li.VerifSQLFlagAnsi)
				for _, t := range tr.Tokens {
					if strings.EqualFold(t.Val, k) && t.Category == cls {
						found = true
					}
				}
			}
			if !found {
				return fmt.Sprintf("phrase %q (%q) is in the table but the folder does not merge its words (separated by %q) into one token of that class in any probe frame", k, cls, sep)
			}
		}
		return ""
	}
	if len(k) >= 2 && len(k) < 31 && isLetter(k[0]) && !strings.ContainsAny(k, " .`") {
		// the same word in less friendly surroundings: between a rune that
		// shrinks and one that grows under upper-casing; glued to a long dotted or
		// back-ticked tail; exactly 65536 bytes behind an equally long plain word
		probes := []struct{ in, what string }{
			{"/*\xc4\xb1\xc4\xb1*/ " + lower + " \xff", "between U+0131 U+0131 and an invalid byte"},
			{"\xc5\xbf \xc9\x90 " + lower + " 1", "after U+017F and U+0250"},
			{strings.Repeat("q", len(k)) + " /*" + strings.Repeat("c", 65536-len(k)-6) + "*/ " + lower, "65536 bytes behind a plain word of the same length"},
		}
		if cls != 'n' {
			probes = append(probes,
				struct{ in, what string }{lower + "`" + strings.Repeat("x", 40) + "`", "glued to a 40-byte back-ticked name"},
				struct{ in, what string }{lower + "." + strings.Repeat("x", 40), "glued to a 40-byte dotted tail"})
		}
		for _, pb := range probes {
			tr := li.VerifSQLTokens(pb.in, li.VerifSQLFlagQuoteNone|li.VerifSQLFlagAnsi)
			found := false
			for _, t := range tr.Tokens {
				if t.Len == len(k) && strings.EqualFold(t.Val, k) && (t.Category == cls || cls == 'n') {
					found = true
				}
			}
			if !found {
				return fmt.Sprintf("keyword %q (%q) is not classified as such %s", k, cls, pb.what)
			}
		}
	}
	if cls == 'f' && len(k) < 31 && !strings.ContainsAny(k, " `") {
		// function names keep their class inside back quotes, and a dotted key is
		// found as the qualifier in front of a further '.' or back quote
		probes := []struct{ in, what string }{{"`" + lower + "`(1)", "inside back quotes"}, {"`" + lower, "behind a back quote that is never closed"}, {"1 union select `" + lower, "behind a back quote that is never closed, at the end of an attack"}}
		if strings.Contains(k, ".") {
			probes = append(probes, struct{ in, what string }{lower + ".x(1)", "as the qualifier before a further dot"}, struct{ in, what string }{lower + "`x`", "in front of a back-quoted name"})
		}
		for _, pb := range probes {
			tr := li.VerifSQLTokens(pb.in, li.VerifSQLFlagQuoteNone|li.VerifSQLFlagAnsi)
			last := 0
			if strings.HasPrefix(pb.in, "1 ") {
				last = len(tr.Tokens) - 1
			}
			if len(tr.Tokens) == 0 || !strings.EqualFold(tr.Tokens[last].Val, k) || tr.Tokens[last].Category != cls {
				return fmt.Sprintf("function name %q is not classified as such %s (%q)", k, pb.what, pb.in)
			}
		}
	}
	tr := li.VerifSQLTokens(lower, li.VerifSQLFlagQuoteNone|li.VerifSQLFlagAnsi)
	if len(tr.Tokens) == 1 && len(tr.Tokens[0].Val) == len(k) {
		t := tr.Tokens[0]
		// operators of two bytes, words: the class must be the table's
		if t.Category != cls && !(cls == 'n') {
			return fmt.Sprintf("keyword %q is classified %q by the table but lexes as %q", k, cls, t.Category)
		}
	}
	return ""
}

var phraseExemptOnce sync.Once
var phraseExemptSet map[string]bool

func phraseExempt() map[string]bool {
	phraseExemptOnce.Do(func() {
		phraseExemptSet = map[string]bool{}
		data, err := os.ReadFile(filepath.Join(verifDir(), "baseline", "phrases_unreachable.txt"))
		if err != nil {
			return
		}
		for _, l := range strings.Split(string(data), "\n") {
			l = strings.TrimSpace(l)
			if l != "" && !strings.HasPrefix(l, "#") {
				phraseExemptSet[l] = true
			}
		}
	})
	return phraseExemptSet
}
