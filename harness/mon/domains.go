package mon

import (
	"strings"

	li "github.com/corazawaf/libinjection-go"

	"verif/harness/gen"
)

// The six SQL parsing modes (quote x dialect) and the five HTML contexts.
var sqlModes = []int{
	li.VerifSQLFlagQuoteNone | li.VerifSQLFlagAnsi,
	li.VerifSQLFlagQuoteNone | li.VerifSQLFlagMysql,
	li.VerifSQLFlagQuoteSingle | li.VerifSQLFlagAnsi,
	li.VerifSQLFlagQuoteSingle | li.VerifSQLFlagMysql,
	li.VerifSQLFlagQuoteDouble | li.VerifSQLFlagAnsi,
	li.VerifSQLFlagQuoteDouble | li.VerifSQLFlagMysql,
}

func modeName(f int) string {
	q := "asis"
	if f&li.VerifSQLFlagQuoteSingle != 0 {
		q = "'"
	} else if f&li.VerifSQLFlagQuoteDouble != 0 {
		q = "\""
	}
	if f&li.VerifSQLFlagMysql != 0 {
		return q + "/mysql"
	}
	return q + "/ansi"
}

var h5Ctxs = []int{li.VerifH5CtxData, li.VerifH5CtxNoQuote, li.VerifH5CtxSingleQuote, li.VerifH5CtxDoubleQuote, li.VerifH5CtxBackQuote}
var h5CtxNames = []string{"data", "unquoted", "single", "double", "backtick"}

// sqlSig: what the monitors observe anyway — per-mode fingerprint and fold
// count bucket. Used for novelty-guided growth.
func sqlSig(s string) string {
	var b strings.Builder
	for _, m := range sqlModes[:5] {
		p := li.VerifSQLPassOn(s, m)
		b.WriteString(p.Fingerprint)
		b.WriteByte('|')
		f := p.StatsFolds
		if f > 3 {
			f = 3
		}
		b.WriteByte(byte('0' + f))
	}
	return b.String()
}

// htmlSig: token-type sequence (clipped) per context plus verdict.
func htmlSig(s string) string {
	var b strings.Builder
	for _, c := range h5Ctxs {
		toks, _ := li.VerifH5Tokens(s, c, 24)
		for _, t := range toks {
			b.WriteByte(byte('a' + t.Type))
		}
		if li.VerifXSSCtx(s, c) {
			b.WriteByte('!')
		}
		b.WriteByte('|')
	}
	return b.String()
}

var sqlDomain = &domain{name: "sql", corpus: gen.CorpusSQL, seps: []string{"", " ", " ", " ", "\t", "\n", "\v", "\f", "\r", "\xa0", "\x00", "/**/", "/*x*/", "+", "("},
	openers: gen.SQLOpeners, mutDict: gen.SQLExt, scale: sqlScale, sig: sqlSig}

var htmlDomain = &domain{name: "html", corpus: gen.CorpusHTML, seps: []string{"", " ", " ", "\t", "\n", "\f", "\r", "/", "\x00", "\v"},
	openers: gen.HTMLOpeners, mutDict: gen.HTMLFull, scale: htmlScale, sig: htmlSig}
