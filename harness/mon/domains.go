package mon

import (
	"strings"

	li "github.com/corazawaf/libinjection-go"

	"verif/harness/gen"
)

// The six SQL parsing modes (quote x dialect) and the five HTML contexts.
var sqlModes = []int{
	li.VerifSQLFlagQuoteNone | li.VerifSQLFlagAnsi,
	li.VerifSQLFlagQuoteNone | li.VerifSQLFlagMysql,
	li.VerifSQLFlagQuoteSingle | li.VerifSQLFlagAnsi,
	li.VerifSQLFlagQuoteSingle | li.VerifSQLFlagMysql,
	li.VerifSQLFlagQuoteDouble | li.VerifSQLFlagAnsi,
	li.VerifSQLFlagQuoteDouble | li.VerifSQLFlagMysql,
}

func modeName(f int) string {
	q := "asis"
	if f&li.VerifSQLFlagQuoteSingle != 0 {
		q = "'"
	} else if f&li.VerifSQLFlagQuoteDouble != 0 {
		q = "\""
	}
	if f&li.VerifSQLFlagMysql != 0 {
		return q + "/mysql"
	}
	return q + "/ansi"
}

var h5Ctxs = []int{li.VerifH5CtxData, li.VerifH5CtxNoQuote, li.VerifH5CtxSingleQuote, li.VerifH5CtxDoubleQuote, li.VerifH5CtxBackQuote}
var h5CtxNames = []string{"data", "unquoted", "single", "double", "backtick"}

// sqlSig: what the monitors observe anyway — per-mode fingerprint and fold
// count bucket. Used for novelty-guided growth.
func sqlSig(s string) string {
	var b strings.Builder
	for _, m := range sqlModes[:5] {
		p := li.VerifSQLPassOn(s, m)
		b.WriteString(p.Fingerprint)
		b.WriteByte('|')
		f := p.StatsFolds
		if f > 3 {
			f = 3
		}
		b.WriteByte(byte('0' + f))
	}
	return b.String()
}

// htmlSig: token-type sequence (clipped) per context plus verdict.
func htmlSig(s string) string {
	var b strings.Builder
	for _, c := range h5Ctxs {
		toks, _ := li.VerifH5Tokens(s, c, 24)
		for _, t := range toks {
			b.WriteByte(byte('a' + t.Type))
		}
		if li.VerifXSSCtx(s, c) {
			b.WriteByte('!')
		}
		b.WriteByte('|')
	}
	return b.String()
}

const bb = "\xfe\xfe"

var sqlByteTemplates = []string{
	bb, "1" + bb + "or" + bb + "1=1", "1'" + bb + "or" + bb + "'1'='1", "select" + bb + "1", "1" + bb + "union" + bb + "select" + bb + "1", bb + "1 or 1=1", "1 or 1=1" + bb,
	"@" + bb, "@@" + bb + "a", "`" + bb + "`", "'" + bb + "'", "\"" + bb + "\"", "0x" + bb, "1e" + bb, "1." + bb, "$" + bb + "$", "$a$" + bb + "$a$", "q'" + bb + "a" + bb + "'", "nq'" + bb + "x", "n" + bb + "'a'",
	"/*" + bb + "*/1", "--" + bb + "\n1", "#" + bb + "\n1", "[" + bb + "]", "\\" + bb, "a" + bb + "b", "1" + bb + "1", "a." + bb, "x'" + bb + "'", "u&" + bb, "1" + bb + ";" + bb + "drop table t",
	"1 or 1" + bb + "=1", "1 " + bb + "= 1 or", "<" + bb + ">", ":" + bb, "!" + bb, "|" + bb, "&" + bb, "*" + bb, "-" + bb + "-", "/" + bb + "*", "{" + bb + "a}", "user" + bb + "()",
	// a character in front of a marker word inside a trailing comment (case mapping that changes the length)
	"1 --" + bb + " sp_password", "1 --" + bb + "sp_password", "x' --" + bb + bb + " sp_password", "1 --sp_password" + bb, "1 #" + bb + bb + bb + "sp_password", "1 /*" + bb + "*/ union select 1", bb + " union select 1 --", "select" + bb + bb + " 1 from t",
	// a comment / string / variable that ends the input right after the byte
	"1#" + bb, "1--" + bb, "1 -- " + bb, "1/*" + bb, "'a'#" + bb, "a--" + bb, "1;" + bb, "1'" + bb, "@" + bb + "#", "1 or '" + bb, "1\"" + bb, "1`" + bb, "a@" + bb, "1 or @" + bb,
}

var htmlByteTemplates = []string{
	bb, "<" + bb, "<" + bb + "script>", "<script" + bb + ">", "<script" + bb + "x>", "<a" + bb + "onclick=x>", "<a " + bb + "onclick=x>", "<a on" + bb + "click=x>", "<a onclick" + bb + "=x>", "<a onclick=" + bb + "x>", "<a onclick=x" + bb + ">",
	"<a href=" + bb + "javascript:x>", "<a href='" + bb + "javascript:x'>", "<a href=java" + bb + "script:x>", "<a href=&#" + bb + "106;avascript:>", "<a href=&#x6a" + bb + "avascript:>", "<a href=&#106" + bb + "avascript:>",
	"<!" + bb + "doctype>", "<!--" + bb + "-->", "<!--x-" + bb + "->", "<!--x--" + bb + ">", "<!-- ` --" + bb, "<![CDATA[" + bb + "]]>", "<%" + bb + "%>", "<?" + bb + "import>", "</" + bb + "a>", "</a" + bb + ">", "<a/" + bb + ">", "<a b='c'" + bb + "d=e>",
	">" + bb + "script>", "> " + bb + "script x>", "x" + bb + "onclick y", "x'" + bb + "onclick'y", bb + "onclick", "onclick" + bb + "x", "href" + bb + "javascript:x", "x' href" + bb + "'javascript:x", "`" + bb + "onerror`", "x>" + bb + "!doctype html>",
	"x" + bb + " onclick=y", "x'" + bb + " onclick=y", "x\"" + bb + "onclick=y", "x`" + bb + "onclick=y", "'>" + bb + "<script>", bb + "<script>", "<a b=c" + bb + "onclick=d>", "<a b" + bb + "=c onclick=d>",
	// after an attribute name and white space; at the very start of a quoted context
	"onclick " + bb + "x", "x' onclick " + bb, "<a onclick " + bb + "x>", "style\t" + bb, "x onclick\x00" + bb + "y", bb + "'onerror=x ", bb + "\"onerror=x ", bb + "`onerror=x ", bb + "' onerror=x ", bb + "x' onerror=y",
	bb + "onerror=alert(1)", bb + "style=x", bb + "href=javascript:x", "<a" + bb + bb + bb + bb + bb + bb + bb + ">", "<a on" + bb + bb + bb + bb + bb + bb + bb + bb + "=x>",
	"<title>" + bb + "</title><b>", "<textarea>" + bb + bb + bb + bb + bb + bb + bb + bb + bb + "</textarea>", "<a title=x" + bb + "/onclick=1>", "<script>" + bb + "</script>", "<a href=" + bb + "javascript:x>",
}

var sqlDomain = &domain{name: "sql", corpus: gen.CorpusSQL, seps: []string{"", " ", " ", " ", "\t", "\n", "\v", "\f", "\r", "\xa0", "\x00", "/**/", "/*x*/", "+", "("},
	openers: gen.SQLOpeners, mutDict: gen.SQLExt, scale: sqlScale, sig: sqlSig, byteTemplates: sqlByteTemplates, fillers: []string{" ", "a", "/* filler */", "1,", "x ", "(", ")", "\x00", "\n", "+", "''", "1+1-", "not ", "\xa0"},
	wraps: [][2]string{{"/*", "*/"}, {"'", "'"}, {" /*", "*/ "}, {"\"", "\""}, {"--", "\n"}, {"`", "`"}, {"[", "]"}, {"$$", "$$"}}}

var htmlDomain = &domain{name: "html", corpus: gen.CorpusHTML, seps: []string{"", " ", " ", "\t", "\n", "\f", "\r", "/", "\x00", "\v"},
	openers: gen.HTMLOpeners, mutDict: gen.HTMLFull, scale: htmlScale, sig: htmlSig, byteTemplates: htmlByteTemplates, fillers: []string{" ", "x", "<b>t</b>", "lorem ipsum ", "a=b ", "/", "\x00", "\n", "<!--c-->", "'", "word \n", "\t"},
	wraps: [][2]string{{"<!--", "-->"}, {"<a b='", "'>"}, {"<a href=\"", "\">"}, {"<![CDATA[", "]]>"}, {"<a ", ">"}, {"<%", "%>"}, {"'", "'"}, {"<a href=", " >"}}}
