//go:build verif

package mon

import (
	"testing"

	li "github.com/corazawaf/libinjection-go"

	"verif/harness/gen"
	"verif/harness/refhtml"
)

// Construction-time fuzzers (not part of any registered command: `go test
// -fuzz` takes no seed and is bounded by time, not by a case list). They hunt
// for disagreements between the library and the reference models beyond what
// the deterministic generators produce.

func FuzzSQLConformance(f *testing.F) {
	for _, s := range gen.CorpusSQL() {
		f.Add(s)
	}
	f.Fuzz(func(t *testing.T, s string) {
		if len(s) > 2048 {
			return
		}
		if kind, msg := compareSQL(nil, s); kind != "" {
			t.Fatalf("%s on %q: %s", kind, s, msg)
		}
	})
}

func FuzzHTMLConformance(f *testing.F) {
	for _, s := range gen.CorpusHTML() {
		f.Add(s)
	}
	tab := liveHTMLTables()
	f.Fuzz(func(t *testing.T, s string) {
		if len(s) > 2048 {
			return
		}
		or := false
		for ci, ctx := range h5Ctxs {
			got, gc := li.VerifH5Tokens(s, ctx, len(s)+2)
			want, wc := refhtml.Tokenize(s, ci, len(s)+2)
			if gc || wc || len(got) != len(want) {
				t.Fatalf("ctx %d token count %q", ci, s)
			}
			for i := range got {
				if got[i].Type != want[i].Type || got[i].Off != want[i].Off || got[i].Len != want[i].Len {
					t.Fatalf("ctx %d token %d differs on %q", ci, i, s)
				}
			}
			a, b := li.VerifXSSCtx(s, ctx), tab.IsXSS(s, ci)
			if a != b {
				t.Fatalf("ctx %d verdict %v vs %v on %q", ci, a, b, s)
			}
			or = or || b
		}
		if li.IsXSS(s) != or {
			t.Fatalf("IsXSS vs OR on %q", s)
		}
	})
}
