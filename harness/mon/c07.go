package mon

import (
	"fmt"
	"strings"
	"sync"

	li "github.com/corazawaf/libinjection-go"

	"verif/harness/core"
	"verif/harness/refhtml"
)

var h5tabOnce sync.Once
var h5tab *refhtml.Tables

// liveHTMLTables hands the library's own black lists to the reference
// ("evaluated over the project's own black lists").
func liveHTMLTables() *refhtml.Tables {
	h5tabOnce.Do(func() {
		t := &refhtml.Tables{Tags: map[string]bool{}, Attrs: map[string]int{}, Events: map[string]int{}}
		for _, x := range li.VerifBlackTags() {
			t.Tags[x] = true
		}
		for _, a := range li.VerifBlacks() {
			if _, dup := t.Attrs[a.Name]; !dup {
				t.Attrs[a.Name] = a.Type
			}
		}
		for _, e := range li.VerifBlackEvents() {
			if _, dup := t.Events[e.Name]; !dup {
				t.Events[e.Name] = e.Type
			}
		}
		h5tab = t
	})
	return h5tab
}

func dumpRefH5(s string, toks []refhtml.Token) string {
	var b strings.Builder
	for i, t := range toks {
		if i >= 16 {
			b.WriteString(" …")
			break
		}
		txt := s[t.Off : t.Off+t.Len]
		if len(txt) > 24 {
			txt = txt[:24] + "…"
		}
		fmt.Fprintf(&b, " [%s@%d+%d %q]", h5TypeName(t.Type), t.Off, t.Len, txt)
	}
	return b.String()
}

// C07 — HTML5 tokenizer and classifier conform to the reference.
func c07() *core.Check {
	return &core.Check{
		ID: "C07",
		Rule: "every HTML workload input (corpus, truncations, bounded-exhaustive atom sequences, random sequences, havoc / novelty-guided mutation, XSS-grammar vectors, every delimited construct with decoy-terminator bodies) is run through the real tokenizer (accessor) and through the independently written reference state machine from all five start contexts: token (type, offset, length) streams, per-context verdicts, IsXSS vs the OR of the reference verdicts, and the tag / attribute / URL predicates and the decoder on every token text that occurs are compared. " +
			"Non-trivial = inputs producing >= 2 tokens in some context; distinct by input.",
		Plan: func(tier string, seed uint64) []core.Unit {
			us := htmlPlan(htmlQuick, htmlThorough)(tier, seed)
			lvl := 0
			if tier == "thorough" {
				lvl = 1
			} else {
				// three-atom interactions over the full dictionary already in the quick tier
				us = append(us, planMix(htmlDomain, []Mix{{Gen: "atoms", Dict: "htmlmid", K: 3}})...)
			}
			return append(us, planDecoy(lvl)...)
		},
		Gen: func(w *core.Worker, u core.Unit, emit func(core.Case)) {
			if u.Gen == "decoy" {
				genDecoy(w, u, func(s string, _ int, _ string) { emit(core.Case{In: s}) })
				return
			}
			htmlGen(w, u, emit)
		},
		One: func(w *core.Worker, c core.Case) {
			s := c.In
			if len(s) > 1<<19 && c.Kind != "seam" {
				return
			}
			w.Eval(1)
			tab := liveHTMLTables()
			nt := false
			refOr := false
			for ci, ctx := range h5Ctxs {
				got, gcap := li.VerifH5Tokens(s, ctx, len(s)+2)
				want, wcap := refhtml.Tokenize(s, ci, len(s)+2)
				if gcap || wcap {
					w.Violate("token-stream-mismatch", fmt.Sprintf("context %s: step cap hit (impl %v, reference %v)", h5CtxNames[ci], gcap, wcap))
					return
				}
				bad := len(got) != len(want)
				for i := 0; !bad && i < len(got); i++ {
					if got[i].Type != want[i].Type || got[i].Off != want[i].Off || got[i].Len != want[i].Len {
						bad = true
					}
				}
				if bad {
					w.Violate("token-stream-mismatch", fmt.Sprintf("context %s:\n impl:%s\n ref :%s", h5CtxNames[ci], dumpH5(s, ctx), dumpRefH5(s, want)))
					return
				}
				if len(got) >= 2 {
					nt = true
				}
				w.Count("tokens_compared", uint64(len(got)))
				gv := li.VerifXSSCtx(s, ctx)
				wv := tab.IsXSS(s, ci)
				if gv != wv {
					w.Violate("verdict-mismatch", fmt.Sprintf("context %s: implementation verdict %v, reference verdict %v\n tokens:%s", h5CtxNames[ci], gv, wv, dumpRefH5(s, want)))
					return
				}
				refOr = refOr || wv
				// helper predicates on the token texts that occur
				for _, t := range want {
					txt := s[t.Off : t.Off+t.Len]
					switch t.Type {
					case refhtml.TagNameOpen:
						if a, b := li.VerifIsBlackTag(txt), tab.IsBlackTag(txt); a != b {
							w.Violate("predicate-mismatch", fmt.Sprintf("isBlackTag(%q): implementation %v, reference %v", trunc(txt, 80), a, b))
							return
						}
					case refhtml.AttrName:
						if a, b := li.VerifIsBlackAttr(txt), tab.IsBlackAttr(txt); a != b {
							w.Violate("predicate-mismatch", fmt.Sprintf("isBlackAttr(%q): implementation %d, reference %d", trunc(txt, 80), a, b))
							return
						}
					case refhtml.AttrValue:
						if a, b := li.VerifIsBlackURL(txt), refhtml.IsBlackURL(txt); a != b {
							w.Violate("predicate-mismatch", fmt.Sprintf("isBlackURL(%q): implementation %v, reference %v", trunc(txt, 120), a, b))
							return
						}
						if a, b := li.VerifIsBlackAttr(txt), tab.IsBlackAttr(txt); a != b {
							w.Violate("predicate-mismatch", fmt.Sprintf("isBlackAttr(%q) (value): implementation %d, reference %d", trunc(txt, 80), a, b))
							return
						}
						if k := strings.IndexByte(txt, '&'); k >= 0 && ci == 0 {
							av, ac := li.VerifHTMLDecode(txt[k:])
							bv, bc := refhtml.Decode(txt[k:])
							if av != bv || ac != bc {
								w.Violate("predicate-mismatch", fmt.Sprintf("decode(%q): implementation (%d,%d), reference (%d,%d)", trunc(txt[k:], 80), av, ac, bv, bc))
								return
							}
						}
					}
					w.Observe("token_types", h5TypeName(t.Type))
				}
				if len(s) <= 48 {
					for j := 0; j+1 < len(want) && j < 8; j++ {
						w.Observe("type_bigrams_"+h5CtxNames[ci], fmt.Sprintf("%d>%d", want[j].Type, want[j+1].Type))
					}
				}
			}
			if g := li.IsXSS(s); g != refOr {
				w.Violate("verdict-mismatch", fmt.Sprintf("IsXSS = %v, OR of the reference verdicts over the five contexts = %v", g, refOr))
				return
			}
			if refOr {
				w.Count("verdict_true", 1)
			}
			if nt {
				w.Nontrivial(s)
			}
			w.Sample(s)
		},
		Explain: func(c core.Case) string {
			var b strings.Builder
			tab := liveHTMLTables()
			for ci, ctx := range h5Ctxs {
				want, _ := refhtml.Tokenize(c.In, ci, len(c.In)+2)
				fmt.Fprintf(&b, "%s: impl verdict %v ref verdict %v\n impl:%s\n ref :%s\n", h5CtxNames[ci], li.VerifXSSCtx(c.In, ctx), tab.IsXSS(c.In, ci), dumpH5(c.In, ctx), dumpRefH5(c.In, want))
			}
			return b.String()
		},
		Assumptions: []string{
			"the reference is my executable statement of libinjection's HTML5 algorithm with the spec decisions of DESIGN.md §5 (Unicode-aware upper-casing, 'contains' scheme test, SVT/XSL, attributename only for black names)",
			"the reference reads the live black lists through the accessors",
		},
	}
}
