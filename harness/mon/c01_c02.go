package mon

import (
	"fmt"

	li "github.com/corazawaf/libinjection-go"

	"verif/harness/core"
)

// C01 — IsSQLi is total. Refuting events: panic (captured per case), process
// death (attributed through the journal), no return within the case budget
// (watchdog + confirmation alone). Every context is driven separately as
// well, because IsSQLi stops at the first context that fires.
func c01() *core.Check {
	quick := []Mix{
		{Gen: "corpus"}, {Gen: "bytes"}, {Gen: "padded"}, {Gen: "trunc"},
		{Gen: "atoms", Dict: "sqlcore", K: 3},
		{Gen: "atoms", Dict: "sqledge", K: 5},
		{Gen: "atoms", Dict: "sqlext", K: 2},
		{Gen: "seq", Dict: "sqlext", N: 200000},
		{Gen: "mut", Dict: "sqlext", N: 200000},
		{Gen: "novel", Dict: "sqlext", N: 200000},
		{Gen: "wl", N: 120000},
		{Gen: "scale", N: 64 << 10},
		{Gen: "scale", N: 288 << 10},
		{Gen: "wrapcount"}, {Gen: "foldalias"}, {Gen: "qualified"}, {Gen: "gluelit"}, {Gen: "encatk"}, {Gen: "dialect"}, {Gen: "prose"}, {Gen: "doubled"}, {Gen: "toktails"},
	}
	thorough := []Mix{
		{Gen: "corpus"}, {Gen: "bytes"}, {Gen: "padded", N: 1}, {Gen: "trunc"},
		{Gen: "atoms", Dict: "sqlcore", K: 4},
		{Gen: "atoms", Dict: "sqledge", K: 7},
		{Gen: "atoms", Dict: "sqlmid", K: 5},
		{Gen: "atoms", Dict: "sqlext", K: 3},
		{Gen: "seq", Dict: "sqlext", N: 3000000},
		{Gen: "mut", Dict: "sqlext", N: 3000000},
		{Gen: "novel", Dict: "sqlext", N: 3000000},
		{Gen: "wl", N: 1500000},
		{Gen: "scale", N: 64 << 10},
		{Gen: "scale", N: 1 << 20},
		{Gen: "wrapcount"}, {Gen: "foldalias"}, {Gen: "qualified"}, {Gen: "gluelit"}, {Gen: "encatk"}, {Gen: "dialect"}, {Gen: "prose"}, {Gen: "doubled"}, {Gen: "toktails"},
	}
	return &core.Check{
		ID:       "C01",
		MaxStack: 256 << 10,
		Rule: "inputs: corpus + seeds, every prefix/suffix/dangling-opener truncation of them, bounded-exhaustive atom sequences over byte-class-complete dictionaries, random atom sequences, havoc and novelty-guided mutation, whitelist-directed shapes, all 256 bytes x {1,2,3,33}, every scale family at 64 KiB and 288 KiB (more than 65 536 tokens; thorough: 1 MiB). " +
			"Each case runs IsSQLi, then each of the five contexts on fresh state, then the raw tokenizer in six modes. Goroutine stack ceiling 256 KiB (the scanner is iterative: stack use must not grow with the input). Non-trivial = some context produced a non-empty fingerprint; distinct = distinct inputs (hash bit-table, lower bound).",
		Plan: func(tier string, seed uint64) []core.Unit {
			if tier == "thorough" {
				return planMix(sqlDomain, thorough)
			}
			return planMix(sqlDomain, quick)
		},
		Gen: func(w *core.Worker, u core.Unit, emit func(core.Case)) {
			if genMix(sqlDomain, w, u, emit) {
				return
			}
			if u.Gen == "wl" {
				genWhitelistDirected(w, u, emit)
			}
		},
		One: func(w *core.Worker, c core.Case) {
			w.Eval(1)
			b, fp := li.IsSQLi(c.In)
			nt := b
			for _, m := range sqlModes[:5] {
				p := li.VerifSQLPassOn(c.In, m)
				if p.Fingerprint != "" {
					nt = true
					if len(c.In) < 4096 {
						w.Observe("fingerprints", p.Fingerprint)
					}
				}
			}
			if len(c.In) <= 4096 {
				for _, m := range sqlModes {
					tr := li.VerifSQLTokens(c.In, m)
					if tr.FinalPos < 0 || tr.FinalPos > len(c.In) {
						w.Violate("scan-offset-out-of-range", fmt.Sprintf("mode %s: final scan offset %d, input length %d", modeName(m), tr.FinalPos, len(c.In)))
					}
					w.Count("tokens_seen", uint64(len(tr.Tokens)))
				}
			}
			if nt {
				w.Nontrivial(c.In)
				w.Count("nontrivial_cases", 1)
			}
			if b {
				w.Count("verdict_true", 1)
				_ = fp
			}
			if len(c.In) > 1000 {
				w.Count("long_inputs", 1)
			}
			w.Sample(c.In)
		},
		Explain: func(c core.Case) string {
			b, fp := li.IsSQLi(c.In)
			return fmt.Sprintf("IsSQLi returned (%v,%q)", b, fp)
		},
		Assumptions: []string{
			"termination is checked as bounded progress: every call returns within 10 s + 10 us/byte (confirmed alone at 6x before it is reported)",
			"inputs outside the generated families are not covered",
		},
	}
}

// genWhitelistDirected builds inputs whose fingerprints are short and
// blacklisted, with empty / short / 31- and 32-byte tokens and leading white
// space, to reach the raw-input indexing of notWhitelist.
func genWhitelistDirected(w *core.Worker, u core.Unit, emit func(core.Case)) {
	r := core.NewRng(w.R.Seed, "wl", fmt.Sprint(u.Lo))
	nums := []string{"1", "0", "12", "1234567890123456789012345678901", "12345678901234567890123456789012", "123456789012345678901234567890123", "1.5", "0x1f", "1e5", "\\N", "$1", "x'1f'", ""}
	words := []string{"a", "foo", "union", "UNION", "select", "into", "aaaaaaaaaaaaaaaaaaaaaaaaaaaaaaa", "aaaaaaaaaaaaaaaaaaaaaaaaaaaaaaaa", "[a]", "`a`", "@a", "@", "", "sleep", "null", "not", "or", "and", "like", "in"}
	strs := []string{"'a'", "'a", "a'", "''", "'", "\"a\"", "\"", "`a`", "$$a$$", "q'(a)'", "n'a'", ""}
	ops := []string{"+", "-", "*", "/", "=", "||", "&&", "and", "or", "|", "&", "<=>", "like", "mod", "", ","}
	comms := []string{"--", "-- ", "-- x", "--x", "#", "#x", "/*", "/**/", "/*x", "/*x*/", "/*!", "/* /* */", "", "-", "/", "--\n", "-- sp_password", "/*sp_password"}
	lead := []string{"", " ", "\t", "\x00", "  ", "+", "(", "-", "'", "\""}
	gaps := []string{"", " ", "  ", "\n", "\x00", "/**/"}
	for i := u.Lo; i < u.Hi; i++ {
		var s string
		switch r.Intn(6) {
		case 0: // number + comment
			s = r.Pick(lead) + r.Pick(nums) + r.Pick(gaps) + r.Pick(comms)
		case 1: // word + comment
			s = r.Pick(lead) + r.Pick(words) + r.Pick(gaps) + r.Pick(comms)
		case 2: // X op Y [comment]
			all := [][]string{nums, words, strs}
			s = r.Pick(lead) + r.Pick(all[r.Intn(3)]) + r.Pick(gaps) + r.Pick(ops) + r.Pick(gaps) + r.Pick(all[r.Intn(3)]) + r.Pick(gaps) + r.Pick(comms)
		case 3: // number/word + keyword
			s = r.Pick(lead) + r.Pick(nums) + " " + r.Pick(words) + r.Pick(gaps) + r.Pick(comms)
		case 4: // string op string
			s = r.Pick(strs) + r.Pick(gaps) + r.Pick(ops) + r.Pick(gaps) + r.Pick(strs) + r.Pick(gaps) + r.Pick(comms)
		case 5: // X kw Y
			s = r.Pick(lead) + r.Pick(nums) + " " + r.Pick(words) + " " + r.Pick(words) + r.Pick(gaps) + r.Pick(comms)
		}
		emit(core.Case{In: s})
	}
}

// C02 — IsXSS is total. Same events as C01; additionally the goroutine stack
// ceiling is lowered to 256 KiB so that recursion that grows with the input
// becomes a process-fatal stack overflow on a 256 KiB input (correct code
// uses O(1) stack, so the ceiling is not stricter than the property).
func c02() *core.Check {
	quick := []Mix{
		{Gen: "corpus"}, {Gen: "bytes"}, {Gen: "padded"}, {Gen: "trunc"},
		{Gen: "atoms", Dict: "htmlbytes", K: 4},
		{Gen: "atoms", Dict: "htmlfull", K: 2},
		{Gen: "seq", Dict: "htmlfull", N: 300000},
		{Gen: "mut", Dict: "htmlfull", N: 200000},
		{Gen: "novel", Dict: "htmlfull", N: 200000},
		{Gen: "decoy", N: 0},
		{Gen: "scale", N: 256 << 10},
		{Gen: "pairs", N: 64 << 10},
		{Gen: "triples", N: 48 << 10},
		{Gen: "wrapcount"}, {Gen: "foldalias"}, {Gen: "attrvals"}, {Gen: "nsattrs"}, {Gen: "elements"}, {Gen: "doubled"}, {Gen: "toktails"},
	}
	thorough := []Mix{
		{Gen: "corpus"}, {Gen: "bytes"}, {Gen: "padded", N: 1}, {Gen: "trunc"},
		{Gen: "atoms", Dict: "htmlbytes", K: 6},
		{Gen: "atoms", Dict: "htmlfull", K: 3},
		{Gen: "seq", Dict: "htmlfull", N: 3000000},
		{Gen: "mut", Dict: "htmlfull", N: 3000000},
		{Gen: "novel", Dict: "htmlfull", N: 3000000},
		{Gen: "decoy", N: 1},
		{Gen: "scale", N: 256 << 10},
		{Gen: "scale", N: 4 << 20},
		{Gen: "pairs", N: 1 << 20},
		{Gen: "allbytes", N: 4 << 20},
		{Gen: "triples", N: 256 << 10},
		{Gen: "wrapcount"}, {Gen: "foldalias"}, {Gen: "attrvals"}, {Gen: "nsattrs"}, {Gen: "elements"}, {Gen: "doubled"}, {Gen: "toktails"},
	}
	return &core.Check{
		ID:       "C02",
		MaxStack: 256 << 10,
		Rule: "inputs: corpus + seeds, every truncation of them (plus dangling openers), bounded-exhaustive sequences over the HTML-significant alphabet, random atom sequences, havoc / novelty-guided mutation, every delimited construct with decoy terminators, every scale family at 256 KiB (thorough: 4 MiB), every ordered pair of alphabet bytes repeated to 64 KiB (thorough: 1 MiB, and all 256 single bytes x 4 MiB), every ordered triple of 14 structural bytes repeated to 48 KiB (thorough 256 KiB). " +
			"Each case runs IsXSS, each of the five contexts separately, and the tokenizer from each context with a step cap. Goroutine stack ceiling 256 KiB. Non-trivial = the tokenizer produced at least one token in some context.",
		Plan: func(tier string, seed uint64) []core.Unit {
			mixes := quick
			if tier == "thorough" {
				mixes = thorough
			}
			var us []core.Unit
			for _, m := range mixes {
				switch m.Gen {
				case "decoy":
					us = append(us, planDecoy(int(m.N))...)
				case "pairs":
					n := len(htmlPairAlphabet)
					for i := 0; i < n*n; i += 8 {
						us = append(us, core.Unit{Gen: "pairs", Lo: uint64(i), Hi: uint64(min(i+8, n*n)), Arg: fmt.Sprint(m.N)})
					}
				case "triples":
					n := len(htmlTripleAlphabet)
					for i := 0; i < n*n*n; i += 16 {
						us = append(us, core.Unit{Gen: "triples", Lo: uint64(i), Hi: uint64(min(i+16, n*n*n)), Arg: fmt.Sprint(m.N)})
					}
				case "allbytes":
					for i := 0; i < 256; i += 4 {
						us = append(us, core.Unit{Gen: "allbytes", Lo: uint64(i), Hi: uint64(i + 4), Arg: fmt.Sprint(m.N)})
					}
				default:
					us = append(us, planMix(htmlDomain, []Mix{m})...)
				}
			}
			return us
		},
		Gen: func(w *core.Worker, u core.Unit, emit func(core.Case)) {
			if genMix(htmlDomain, w, u, emit) {
				return
			}
			switch u.Gen {
			case "decoy":
				genDecoy(w, u, func(s string, _ int, _ string) { emit(core.Case{In: s}) })
			case "pairs":
				genPairs(u, emit)
			case "allbytes":
				genAllBytes(u, emit)
			case "triples":
				genTriples(u, emit)
			}
		},
		One: func(w *core.Worker, c core.Case) {
			w.Eval(1)
			got := li.IsXSS(c.In)
			nt := false
			for i, ctx := range h5Ctxs {
				v := li.VerifXSSCtx(c.In, ctx)
				if v {
					w.Count("fired_"+h5CtxNames[i], 1)
				}
				if len(c.In) <= 8192 {
					toks, capped := li.VerifH5Tokens(c.In, ctx, len(c.In)+2)
					if capped {
						w.Violate("step-cap", fmt.Sprintf("context %s: more than |s|+1 = %d tokens", h5CtxNames[i], len(c.In)+1))
					}
					if len(toks) > 0 {
						nt = true
					}
					w.Count("tokens_seen", uint64(len(toks)))
					for _, t := range toks {
						if t.Off < 0 || t.Len < 0 || t.Off+t.Len > len(c.In) {
							w.Violate("token-outside-input", fmt.Sprintf("context %s: token type %d offset %d len %d, input length %d", h5CtxNames[i], t.Type, t.Off, t.Len, len(c.In)))
						}
					}
				} else {
					nt = true
				}
			}
			if got {
				w.Count("verdict_true", 1)
			}
			if nt {
				w.Nontrivial(c.In)
			}
			if len(c.In) > 1000 {
				w.Count("long_inputs", 1)
			}
			w.Sample(c.In)
		},
		Explain: func(c core.Case) string { return fmt.Sprintf("IsXSS returned %v", li.IsXSS(c.In)) },
		Assumptions: []string{
			"termination is checked as bounded progress: every call returns within 10 s + 10 us/byte (confirmed alone at 6x before it is reported)",
			"stack growth is observed through a 256 KiB goroutine stack ceiling on inputs up to 4 MiB",
		},
	}
}

var htmlPairAlphabet = []string{"<", ">", "/", "=", "'", "\"", "`", "!", "-", "?", "%", "[", "]", "&", "#", ";", "x", "a", "\x00", " ", "\n", "0", "X", ":"}

func genPairs(u core.Unit, emit func(core.Case)) {
	n := len(htmlPairAlphabet)
	var size int
	fmt.Sscan(u.Arg, &size)
	for i := u.Lo; i < u.Hi; i++ {
		a, b := htmlPairAlphabet[int(i)/n], htmlPairAlphabet[int(i)%n]
		for _, pre := range []string{"", "<a "} {
			emit(core.Case{In: genScale(pre, a+b, "", size), Desc: genScaleDesc(pre, a+b, "", size)})
		}
	}
}

// every ordered triple of structural bytes, repeated: recursion between state
// functions that needs a three-byte period (e.g. "</>") shows up here.
var htmlTripleAlphabet = []string{"<", ">", "/", "=", "'", "\"", "`", "!", "-", "?", "%", " ", "a", "\x00"}

func genTriples(u core.Unit, emit func(core.Case)) {
	n := len(htmlTripleAlphabet)
	var size int
	fmt.Sscan(u.Arg, &size)
	for i := u.Lo; i < u.Hi; i++ {
		a, b, c := htmlTripleAlphabet[int(i)/(n*n)], htmlTripleAlphabet[int(i)/n%n], htmlTripleAlphabet[int(i)%n]
		if a == b && b == c {
			continue
		}
		pre := []string{"", "<a ", "x'>"}[int(i)%3]
		emit(core.Case{In: genScale(pre, a+b+c, "", size), Desc: genScaleDesc(pre, a+b+c, "", size)})
	}
}

func genAllBytes(u core.Unit, emit func(core.Case)) {
	var size int
	fmt.Sscan(u.Arg, &size)
	for i := u.Lo; i < u.Hi; i++ {
		b := string([]byte{byte(i)})
		emit(core.Case{In: genScale("", b, "", size), Desc: genScaleDesc("", b, "", size)})
	}
}
