package mon

import (
	"strconv"
	"strings"

	li "github.com/corazawaf/libinjection-go"

	"verif/harness/core"
	"verif/harness/gen"
)

func genScale(p, u, s string, n int) string     { return gen.Scale(p, u, s, n) }
func genScaleDesc(p, u, s string, n int) string { return gen.ScaleDesc(p, u, s, n) }

// construct describes one delimited HTML construct for the first-terminator
// oracle of C17 (and as decoy workload for C02/C07).
type construct struct {
	name     string
	ctx      int
	lead     string                         // opener bytes before the token starts
	inTok    string                         // opener bytes that belong to the token (doctype)
	alpha    []string                       // body alphabet: the terminator bytes, NUL, filler, '<'
	typ      int                            // expected token type
	term     func(b string) (idx, tlen int) // index of first terminator in b and its length; idx<0 if none
	reject   func(b string) bool            // bodies that would select a different construct
	extra    []string                       // additional hand-picked bodies
	noPrefix bool                           // the construct's lead must start at offset 0 (start-context constructs)
}

func idxTerm(t string) func(string) (int, int) {
	return func(b string) (int, int) { return strings.Index(b, t), len(t) }
}

// commentTerm: '-' NUL* ('-'|'!') '>' — NULs tolerated after the first dash.
func commentTerm(b string) (int, int) {
	for i := 0; i < len(b); i++ {
		if b[i] != '-' {
			continue
		}
		j := i + 1
		for j < len(b) && b[j] == 0 {
			j++
		}
		if j < len(b) && (b[j] == '-' || b[j] == '!') && j+1 < len(b) && b[j+1] == '>' {
			return i, j + 2 - i
		}
	}
	return -1, 0
}

const (
	tDataText   = 0
	tAttrValue  = 7
	tTagComment = 8
	tDocType    = 9
)

var constructs = []construct{
	{name: "pct", ctx: li.VerifH5CtxData, lead: "<%", alpha: []string{"%", ">", "x", "<", "\x00"}, typ: tTagComment, term: idxTerm("%>")},
	{name: "cdata", ctx: li.VerifH5CtxData, lead: "<![CDATA[", alpha: []string{"]", ">", "x", "<", "\x00"}, typ: tDataText, term: idxTerm("]]>")},
	{name: "comment", ctx: li.VerifH5CtxData, lead: "<!--", alpha: []string{"-", "!", ">", "\x00", "x"}, typ: tTagComment, term: commentTerm},
	{name: "bang", ctx: li.VerifH5CtxData, lead: "<!", alpha: []string{">", "x", "-", "<", "["}, typ: tTagComment, term: idxTerm(">"),
		reject: func(b string) bool { return strings.HasPrefix(b, "--") }},
	{name: "pi", ctx: li.VerifH5CtxData, lead: "<?", alpha: []string{">", "x", "?", "<", "-"}, typ: tTagComment, term: idxTerm(">"),
		extra: []string{"[CDATA[x]]>y>", "[CDATA[", "doctype x>y>", "DOCTYPE>", "--x>y-->z", "--", "-->", "%>x>", "xml?>"}},
	{name: "doctype", ctx: li.VerifH5CtxData, lead: "<!", inTok: "doctype", alpha: []string{">", "x", " ", "'", "\""}, typ: tDocType, term: idxTerm(">")},
	{name: "DocType", ctx: li.VerifH5CtxData, lead: "<!", inTok: "DocTYPE", alpha: []string{">", "x", "\"", "<", "\x00"}, typ: tDocType, term: idxTerm(">")},
	{name: "sq-embedded", ctx: li.VerifH5CtxData, lead: "<a b='", alpha: []string{"'", "\"", ">", "x", " "}, typ: tAttrValue, term: idxTerm("'")},
	{name: "dq-embedded", ctx: li.VerifH5CtxData, lead: "<a b=\"", alpha: []string{"\"", "'", ">", "x", "="}, typ: tAttrValue, term: idxTerm("\"")},
	{name: "bq-embedded", ctx: li.VerifH5CtxData, lead: "<a b=`", alpha: []string{"`", "'", ">", "x", "/"}, typ: tAttrValue, term: idxTerm("`")},
	{name: "sq-context", ctx: li.VerifH5CtxSingleQuote, lead: "", alpha: []string{"'", "\"", ">", "x", "<"}, typ: tAttrValue, term: idxTerm("'")},
	{name: "dq-context", ctx: li.VerifH5CtxDoubleQuote, lead: "", alpha: []string{"\"", "'", ">", "x", "<"}, typ: tAttrValue, term: idxTerm("\"")},
	{name: "bq-context", ctx: li.VerifH5CtxBackQuote, lead: "", alpha: []string{"`", "'", ">", "x", "<"}, typ: tAttrValue, term: idxTerm("`")},
	// a LATER quoted value when the analysis started inside a quoted value
	{name: "sq-context-later-sq", ctx: li.VerifH5CtxSingleQuote, lead: "x' a='", alpha: []string{"'", "\"", ">", "x", " "}, typ: tAttrValue, term: idxTerm("'"), noPrefix: true},
	{name: "dq-context-later-dq", ctx: li.VerifH5CtxDoubleQuote, lead: "x\" a=\"", alpha: []string{"\"", "'", ">", "x", " "}, typ: tAttrValue, term: idxTerm("\""), noPrefix: true},
	{name: "bq-context-later-bq", ctx: li.VerifH5CtxBackQuote, lead: "x` a=`", alpha: []string{"`", "'", ">", "x", " "}, typ: tAttrValue, term: idxTerm("`"), noPrefix: true},
	{name: "dq-context-later-sq", ctx: li.VerifH5CtxDoubleQuote, lead: "\"a='", alpha: []string{"'", "\"", ">", "x", "="}, typ: tAttrValue, term: idxTerm("'"), noPrefix: true},
	{name: "sq-context-later-bq", ctx: li.VerifH5CtxSingleQuote, lead: "y'/b=`", alpha: []string{"`", "'", ">", "x", "/"}, typ: tAttrValue, term: idxTerm("`"), noPrefix: true},
	{name: "unquoted-context-later-dq", ctx: li.VerifH5CtxNoQuote, lead: "x a=\"", alpha: []string{"\"", "'", ">", "x", " "}, typ: tAttrValue, term: idxTerm("\""), noPrefix: true},
}

var decoyPrefixes = []string{"", "xy", "'\" "}

// planDecoy: level 0 = bodies up to 6 (quick), 1 = up to 8, 2 = up to 9.
func planDecoy(level int) []core.Unit {
	L := 6
	switch level {
	case 1:
		L = 8
	case 2:
		L = 9
	case 3:
		L = 10
	}
	var us []core.Unit
	for ci, c := range constructs {
		if len(c.extra) > 0 {
			us = append(us, core.Unit{Gen: "decoy", Lo: 0, Hi: uint64(len(c.extra)), Arg: strconv.Itoa(ci) + ":extra"})
		}
		for l := 0; l <= L; l++ {
			total := gen.Pow(len(c.alpha), l)
			for _, u := range gen.RangeUnits("decoy", total, 30000, strconv.Itoa(ci)+":"+strconv.Itoa(l)) {
				us = append(us, u)
			}
		}
	}
	return us
}

// genDecoy emits prefix+lead+inTok+body for every body of the unit; the
// callback receives the input, the construct index and "prefix|body".
func genDecoy(w *core.Worker, u core.Unit, emit func(in string, ci int, meta string)) {
	p := strings.SplitN(u.Arg, ":", 2)
	ci, _ := strconv.Atoi(p[0])
	l, _ := strconv.Atoi(p[1])
	c := constructs[ci]
	var buf []byte
	for i := u.Lo; i < u.Hi; i++ {
		var body string
		if p[1] == "extra" {
			body = c.extra[i]
		} else {
			buf = gen.Enum(c.alpha, l, i, buf)
			body = string(buf)
		}
		if c.reject != nil && c.reject(body) {
			continue
		}
		for pi, pre := range decoyPrefixes {
			if (c.lead == "" || c.noPrefix) && pi > 0 {
				break // context-mode constructs start at offset 0 by definition
			}
			emit(pre+c.lead+c.inTok+body, ci, strconv.Itoa(len(pre)))
		}
	}
}
