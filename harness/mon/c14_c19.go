package mon

import (
	"bufio"
	"encoding/base64"
	"encoding/hex"
	"fmt"
	"math/big"
	"os"
	"path/filepath"
	"sort"
	"strconv"
	"strings"
	"sync"
	"unsafe"

	li "github.com/corazawaf/libinjection-go"

	"verif/harness/core"
	"verif/harness/gen"
)

// ---------------------------------------------------------------------------
// C14 — plain words and numbers are never SQLi.

var c14Once sync.Once
var c14Words []string
var c14Dropped = map[string]string{}

// c14Load builds G_benign's word list against the LIVE keyword table: a word
// is admitted when it is not a key, not a space-separated component of a key
// and not a '.'-separated prefix of one.
func c14Load() {
	loadDrops("g14_dropped.txt", c14Dropped)
	banned := map[string]bool{}
	for k := range keywords() {
		banned[k] = true
		for _, part := range strings.FieldsFunc(k, func(r rune) bool { return r == ' ' || r == '.' || r == '_' && false }) {
			banned[part] = true
		}
	}
	seen := map[string]bool{}
	add := func(w string) {
		if w == "" || seen[w] {
			return
		}
		c := w[0]
		if !(isLetter(c) || c == '_') {
			return
		}
		for i := 1; i < len(w); i++ {
			if !(isLetter(w[i]) || w[i] == '_' || w[i] >= '0' && w[i] <= '9') {
				return
			}
		}
		if banned[asciiUpper(w)] {
			return
		}
		seen[w] = true
		c14Words = append(c14Words, w)
	}
	f, err := os.Open(filepath.Join(verifDir(), "corpus", "words.txt"))
	if err == nil {
		sc := bufio.NewScanner(f)
		for sc.Scan() {
			w := strings.TrimSpace(sc.Text())
			add(w)
			if len(w) > 1 {
				add(strings.ToUpper(w[:1]) + w[1:])
			}
			if len(w)%5 == 0 {
				add(strings.ToUpper(w))
			}
		}
		f.Close()
	}
	// identifier shapes of length 1-40
	for _, w := range []string{"a", "b", "e", "n", "q", "u", "x", "N", "Q", "X", "_", "_a", "a1", "x9", "b2b", "e5", "n1", "q2", "u8", "x86", "id1", "foo_bar", "fooBar", "FooBar", "FOO_BAR", "user1", "my_table2",
		"getUserById", "order66", "abc123def", "a_b_c_d", "xX", "zz9", "__init__", "camelCaseIdentifierName", "snake_case_identifier_name", "SCREAMING_SNAKE_CASE_NAME",
		"a234567890123456789012345678901", "a2345678901234567890123456789012", "a23456789012345678901234567890123", "abcdefghijklmnopqrstuvwxyzabcdefghijklmn", "word31_aaaaaaaaaaaaaaaaaaaaaaaa", "word32_aaaaaaaaaaaaaaaaaaaaaaaaa"} {
		add(w)
	}
}

func c14WordList() []string { c14Once.Do(c14Load); return c14Words }

// identifier families: words a lexer change could start to treat specially
// because of a prefix, suffix or marker although they are not table keys.
var c14Prefixes = []string{"sp_", "xp_", "sys_", "pg_", "fn_", "dbms_", "utl_", "mysql_", "is_", "get_", "set_", "tbl_", "col_", "db_", "user_", "current_", "local", "session_", "information_", "master_", "x", "0x"[1:], "q", "nq", "n", "e", "b", "u", "_"}
var c14Specials = []string{"sp_password", "sp_passwords", "my_sp_password", "xp_cmdshell_log", "information_schemas", "pg_sleepy", "sleeper", "benchmarks", "selected", "unions", "inserted", "updates", "dropped", "wherever", "fromage", "orca", "android", "notary", "likeness", "nullable", "intox", "havingness", "ifs", "elsewhere"}

// c14Pick draws a word: style 0 general, style>0 homogeneous prefix family.
func c14Pick(r *core.Rng, words []string, style int) string {
	for tries := 0; tries < 8; tries++ {
		w := words[r.Intn(len(words))]
		if style > 0 {
			w = c14Prefixes[(style-1)%len(c14Prefixes)] + w
		} else if r.Intn(10) == 0 {
			w = c14Specials[r.Intn(len(c14Specials))]
		}
		if c14Admitted(w) {
			return w
		}
	}
	return words[r.Intn(len(words))]
}

var c14KwOnce sync.Once
var c14KwWords []string

// c14NearKeyword: a keyword with one letter glued to its front or back
// ("Land", "shaving", "ands"), admitted only if it is not itself a table word.
func c14KeywordWords() []string {
	c14KwOnce.Do(func() {
		for k, v := range keywords() {
			if v != 'F' && len(k) >= 2 && len(k) <= 12 && !strings.ContainsAny(k, " .") && isLetter(k[0]) {
				c14KwWords = append(c14KwWords, strings.ToLower(k))
			}
		}
		sort.Strings(c14KwWords)
	})
	return c14KwWords
}

var c14LookOnce sync.Once
var c14Look []string

// c14Lookalikes: identifiers one small edit away from a keyword - digits for
// look-alike letters (l1m1t, s3l3ct), one letter dropped, doubled or swapped
// with its neighbour, a common suffix - that are not table words themselves.
// A look-up that "repairs" or approximates its key reports these.
func c14Lookalikes() []string {
	c14LookOnce.Do(func() {
		leet := map[byte]byte{'o': '0', 'i': '1', 'l': '1', 'e': '3', 'a': '4', 's': '5', 't': '7', 'b': '8', 'g': '9', 'z': '2'}
		seen := map[string]bool{}
		add := func(w string) {
			if len(w) < 2 || seen[w] || !c14Admitted(w) {
				return
			}
			for i := 0; i < len(w); i++ {
				if !(isLetter(w[i]) || w[i] == '_' || w[i] >= '0' && w[i] <= '9') {
					return
				}
			}
			seen[w] = true
			c14Look = append(c14Look, w)
		}
		for _, k := range c14KeywordWords() {
			if len(k) < 3 {
				continue
			}
			b := []byte(k)
			all := []byte(k)
			for i := 1; i < len(b); i++ {
				if d, ok := leet[b[i]]; ok {
					all[i] = d
					one := []byte(k)
					one[i] = d
					add(string(one))
					add(strings.ToUpper(string(one)))
				}
			}
			add(string(all))
			for i := 0; i < len(b); i++ {
				add(k[:i] + k[i+1:])       // one letter dropped
				add(k[:i+1] + k[i:])       // one letter doubled
				if i+1 < len(b) && i > 0 { // neighbours swapped
					add(k[:i] + string([]byte{b[i+1], b[i]}) + k[i+2:])
				}
			}
			for i := 1; i < len(b); i++ {
				add(k[:i] + k + k[i:])   // the keyword nested in itself (what a strip-once filter leaves behind)
				add(k[:i] + "_" + k[i:]) // an underscore inside the keyword
				add(k[:i] + "0" + k[i:]) // a digit inside the keyword
			}
			add(k + k)
			add(k + "_" + k)
			for _, sfx := range []string{"s", "ed", "ing", "er", "_id", "Id", "1", "2", "_", "x"} {
				add(k + sfx)
			}
			add("x" + k)
			add("_" + k)
		}
		// multi-word keys written as one identifier (ORDERBY, group_by, InsertInto)
		for k, v := range keywords() {
			if v == 'F' || !strings.Contains(k, " ") {
				continue
			}
			parts := strings.Fields(strings.ToLower(k))
			ok := true
			for _, p := range parts {
				for i := 0; i < len(p); i++ {
					if !isLetter(p[i]) {
						ok = false
					}
				}
			}
			if !ok {
				continue
			}
			add(strings.Join(parts, ""))
			add(strings.Join(parts, "_"))
			add(strings.ToUpper(strings.Join(parts, "")))
			camel := ""
			for _, p := range parts {
				camel += strings.ToUpper(p[:1]) + p[1:]
			}
			add(camel)
		}
		// identifiers that are an attack in another alphabet: base64 / hex of
		// injection strings (letters and digits only)
		for _, a := range c14Attacks {
			for _, pad := range []string{"", " ", "  "} {
				b := base64.StdEncoding.EncodeToString([]byte(a + pad))
				if !strings.ContainsAny(b, "+/=") {
					add(b)
					add("x" + b)
				}
				u := base64.RawURLEncoding.EncodeToString([]byte(a + pad))
				if !strings.ContainsAny(u, "-") {
					add(u)
				}
			}
			add("x" + hex.EncodeToString([]byte(a)))
			add("a" + strings.ToUpper(hex.EncodeToString([]byte(a))))
			add("b64_" + strings.NewReplacer("+", "", "/", "", "=", "").Replace(base64.StdEncoding.EncodeToString([]byte(a))))
		}
		for _, a := range []string{"1 union select 1,2", "1 or 1=1 -- ", "1 or 1=1", "' or 'a'='a", "1;drop table t", "admin'--", "1 and sleep(5)", "x' or 1=1 -- "} {
			for _, pad := range []string{"", " ", "  "} {
				b := base64.StdEncoding.EncodeToString([]byte(a + pad))
				if !strings.ContainsAny(b, "+/=") && isLetter(b[0]) {
					add(b)
				}
			}
		}
		sort.Strings(c14Look)
	})
	return c14Look
}

// c14EmbeddedPhrases: ordinary sentences in which a word ENDS with the first
// keyword of an attack phrase and the next word BEGINS with the second
// ("family reunion selection committee"): a pattern search without word
// boundaries reads "union select".
func c14EmbeddedPhrases() []string {
	var out []string
	pairs := [][2]string{{"union", "select"}, {"or", "select"}, {"and", "sleep"}, {"order", "by"}, {"group", "by"}, {"insert", "into"}, {"drop", "table"}, {"select", "from"}, {"union", "all"}, {"having", "count"}, {"like", "char"}, {"exec", "xp"}, {"waitfor", "delay"}, {"into", "outfile"}, {"load", "file"}, {"is", "null"}}
	pre := []string{"re", "x", "pre", "dis", "b"}
	suf := []string{"ion", "ed", "s", "er", "x"}
	frames := []string{"the family %s %s committee met 5 times", "%s %s", "a %s %s b c d e f", "1 %s %s 2 3 4 5 6", "%s %s of 7 items in 3 boxes on 2 shelves"}
	for _, p := range pairs {
		for i, a := range pre {
			w1 := a + p[0]
			w2 := p[1] + suf[i]
			if !c14Admitted(w1) || !c14Admitted(w2) {
				continue
			}
			for _, f := range frames {
				out = append(out, fmt.Sprintf(f, w1, w2))
				out = append(out, fmt.Sprintf(f, strings.ToUpper(w1), strings.ToUpper(w2)))
			}
		}
	}
	return out
}

func c14NearKeyword(r *core.Rng) string {
	c14KeywordWords()
	for tries := 0; tries < 16; tries++ {
		k := c14KwWords[r.Intn(len(c14KwWords))]
		l := string([]byte{byte('a' + r.Intn(26))})
		var w string
		switch r.Intn(4) {
		case 0:
			w = strings.ToUpper(l) + k
		case 1:
			w = l + k
		case 2:
			w = k + l
		default:
			w = strings.ToUpper(l) + strings.ToUpper(k)
		}
		if c14Admitted(w) {
			return w
		}
	}
	return "zq"
}

const c14IdentFirst = "abcdefghijklmnopqrstuvwxyzABCDEFGHIJKLMNOPQRSTUVWXYZ_"
const c14IdentRest = "abcdefghijklmnopqrstuvwxyz0123456789_abcdefghijklmnopqrstuvwxyzABCDEFGHIJKLMNOPQRSTUVWXYZ"

// c14RandomIdent: a random identifier [A-Za-z_][A-Za-z0-9_]{1,9} that is not a table word.
func c14RandomIdent(r *core.Rng) string {
	for tries := 0; tries < 8; tries++ {
		n := 2 + r.Intn(9)
		b := make([]byte, n)
		b[0] = c14IdentFirst[r.Intn(len(c14IdentFirst))]
		for i := 1; i < n; i++ {
			b[i] = c14IdentRest[r.Intn(len(c14IdentRest))]
		}
		if c14Admitted(string(b)) {
			return string(b)
		}
	}
	return "zq_1"
}

var c14Banned map[string]bool
var c14BanOnce sync.Once

// c14Admitted: not a key, not a space/dot-separated component of a key.
func c14Admitted(w string) bool {
	c14BanOnce.Do(func() {
		c14Banned = map[string]bool{}
		for k := range keywords() {
			c14Banned[k] = true
			for _, part := range strings.FieldsFunc(k, func(r rune) bool { return r == ' ' || r == '.' }) {
				c14Banned[part] = true
			}
		}
	})
	if w == "" || !(isLetter(w[0]) || w[0] == '_') {
		return false
	}
	return !c14Banned[asciiUpper(w)]
}

// c14SQLish: words of SQL grammars (those that are table words are skipped at run time)
var c14SQLish = strings.Fields(`first last next prior rows row only fetch offset percent ties page top skip take count total sum min max asc desc nulls partition over window
	range unbounded preceding following current exclude others group filter within array rank lead lag index key primary foreign references constraint check default unique
	cascade restrict trigger before after each statement instead begin end commit rollback savepoint transaction isolation level read write committed serializable grant revoke
	role schema database table view column add alter rename truncate analyze explain vacuum merge matched using natural cross inner outer left right full lateral apply pivot
	unpivot recursive cycle search depth breadth returning output inserted deleted conflict nothing duplicate replace ignore delayed temporary temp unlogged exists unknown some
	any similar escape ilike rlike regexp glob match against boolean mode language query expansion soundex sounds nocase rtrim binary posix unicode zone time interval year
	month day hour minute second with without local global session system user owner public catalog sequence value values cache nocache increment start stop restart identity
	generated always stored virtual comment engine charset collation storage tablespace exec execute call procedure function returns return declare cursor open close loop
	while repeat until leave iterate handler condition signal resignal get diagnostics prepare deallocate lock unlock share exclusive nowait wait locked tables status show
	describe help use kill flush reset purge load data infile outfile dumpfile fields lines terminated enclosed escaped optionally starting bulk copy stdin stdout delimiter csv
	header quote force freeze encoding uni on sel ect`)

var c14Numbers = []string{"0", "1", "7", "10", "42", "007", "123", "2024", "65535", "1234567890", "99999999999999999999", "1234567890123456789012345678901", "12345678901234567890123456789012", "123456789012345678901234567890123"}

// shapes: W word, N number; other bytes literal.
var c14Shapes = []string{
	// e-mail like
	"W@W.W", "W.W@W.W", "W_W@W.W.W", "WN@W.W",
	// decimal numbers
	"N.N", "N.N N.N", "W N.N", "N.N W", "W N.N W",
	// simple punctuated sentences
	"W W, W W.", "W W. W W.", "W, W W W.", "W W W!", "W W W?", "W: W W", "W W; W W", "W (W W) W", "W W - W W", "W/W W", "W N, W N.", "W W N.", "N W, N W.", "W's W W", "W W: N",
	"W, W, W", "W. W. W.", "W-W W", "W W... W", "W W (N)", "N/N/N", "N-N-N", "N:N", "W #N", "W N% W", "W & W", "W + W", "N x N",
	// apostrophes (the single-quote reading applies) and near-keyword words: K = one letter + keyword or keyword + letter
	"W'W N", "W'K N", "W'K W", "K N", "W K N", "N K N", "K K N", "W'W N W'W", "W's N W'W", "W'W W W'W", "W N W'W N", "W's N K", "W'K N W'W", "K's W N", "W 'W' W", "W \"W\" N", "W's \"W\" N",
	// an e-mail address inside a sentence with words and numbers
	"W N, W@W.W", "W N W@W.W", "W@W.W, N W", "W N; W@W.W", "W W N, W.W@W.W W", "W: W@W.W N", "N, W@W.W", "W N, W@W.W.", "W N, WN@W.W, N",
	// random identifiers
	"N R N", "R R N", "N R N R N", "R N", "R", "R'R N", "R.R@R.R", "R, R N.",
}

func c14Instantiate(shape string, r *core.Rng, words []string) string {
	var b strings.Builder
	style := 0
	if r.Intn(3) == 0 {
		style = 1 + r.Intn(len(c14Prefixes))
	}
	for i := 0; i < len(shape); i++ {
		switch shape[i] {
		case 'W':
			b.WriteString(c14Pick(r, words, style))
		case 'N':
			b.WriteString(c14Numbers[r.Intn(len(c14Numbers))])
		case 'K':
			b.WriteString(c14NearKeyword(r))
		case 'R':
			b.WriteString(c14RandomIdent(r))
		default:
			b.WriteByte(shape[i])
		}
	}
	return b.String()
}

func c14() *core.Check {
	return &core.Check{
		ID: "C14",
		Rule: "G_benign against the LIVE keyword table: word = [A-Za-z_][A-Za-z0-9_]* from a frozen list (4000 English words in three capitalisations + identifier shapes of length 1-40), also behind 28 identifier prefixes (sp_, xp_, pg_, is_, ... one family per sequence) and mixed with marker-like words (sp_password, near-keywords) that is not a key, component or dotted prefix of a key; number = [0-9]+ incl. 31/32/33-digit runs; (1) the token-class abstraction exhaustively: all 62 sequences over {n,1} of length 1-5 must be absent from the live blacklist; (2) every sequence shape over {word,number} up to length 7 joined by single spaces, 64 (thorough 16384) random instantiations each; (3) e-mail / decimal / sentence shapes incl. apostrophes, near-keyword words (one letter glued to a keyword) and random identifiers (those not dropped by the one-time calibration), sampled; (4) 24 M (thorough 300 M) inputs built from distinct random identifiers between numbers; (5) ~30 000 keyword look-alikes (digits for look-alike letters, one letter dropped / doubled / swapped, common suffixes; those that are not table words) in six frames; (6) one identifier of 2^k+d letters (k up to 16, d = -34..34, also 65568+d) whose tail spells a keyword; multi-word keys glued into one identifier; base64 / hex spellings of injection strings; (7) benign bodies of 128 KiB-16 MiB (thorough 256 MiB); (8) long benign texts whose first and last 2^k bytes would join into a keyword; (9) the letters of every two-word table phrase split at another place, asked right after the phrase itself; sentences in which one word ends with and the next begins with the two keywords of an attack phrase; attacks written as decimal / octal character-code lists (numbers only); every keyword nested in itself, with an underscore or digit inside, doubled; the parts of every underscore-spelt table key as separate words (\"uni on\"); ~250 words of SQL grammars that are not table words, in ordered pairs around numbers (\"page first 10 rows 25\"); every eighth input is also asked through a zero-copy view of a recycled buffer that held an equally long attack one call earlier; every string of 3-7 atoms over { 1 blank && ' ( ) \" # % } written as one number in hex pairs, 3-digit decimal and octal codes. Oracle: IsSQLi = (false,\"\"). " +
			"Non-trivial = every instance; distinct by string. The per-context fingerprints are recorded to show that the n/1 abstraction is what the implementation produced.",
		Exhaustive: false,
		Plan: func(tier string, seed uint64) []core.Unit {
			inst := uint64(64)
			shp := uint64(200000)
			if tier == "thorough" {
				inst = 16384
				shp = 40000000
			}
			us := []core.Unit{{Gen: "abstraction", Lo: 0, Hi: 1}}
			// sequence shapes over {W,N} of length 1..7: 2+4+...+128 = 254 shapes
			us = append(us, gen.RangeUnits("seqshape", 254*inst, 8192, strconv.FormatUint(inst, 10))...)
			us = append(us, gen.RangeUnits("shape", shp, 20000, "")...)
			rid := uint64(24000000)
			if tier == "thorough" {
				rid = 300000000
			}
			us = append(us, gen.RangeUnits("randid", rid, 100000, "")...)
			us = append(us, gen.RangeUnits("lookalike", uint64(len(c14Lookalikes())), 2000, "")...)
			us = append(us, gen.RangeUnits("longword", uint64(len(c14LongBounds)*69), 23, "")...)
			us = append(us, gen.RangeUnits("huge", uint64(len(hugeSizes(tier))*3), 1, tier)...)
			us = append(us, gen.RangeUnits("splice", uint64(len(c14SpliceCuts)*len(c14SpliceWords)), 4, "")...)
			us = append(us, core.Unit{Gen: "embedded", Lo: 0, Hi: 1})
			us = append(us, core.Unit{Gen: "resplit", Lo: 0, Hi: 1})
			us = append(us, core.Unit{Gen: "unsplit", Lo: 0, Hi: 1})
			us = append(us, core.Unit{Gen: "charcodes", Lo: 0, Hi: 1})
			us = append(us, gen.EnumUnits("armoured", 9, 7, 100000)...)
			us = append(us, gen.RangeUnits("sqlish", uint64(len(c14SQLish)), 8, "")...)
			return us
		},
		Gen: func(w *core.Worker, u core.Unit, emit func(core.Case)) {
			words := c14WordList()
			switch u.Gen {
			case "abstraction":
				emit(core.Case{Kind: "abstraction"})
			case "seqshape":
				inst, _ := strconv.ParseUint(u.Arg, 10, 64)
				r := core.NewRng(w.R.Seed, "c14seq", fmt.Sprint(u.Lo))
				for i := u.Lo; i < u.Hi; i++ {
					k := int(i / inst) // shape index 0..253
					l := 1
					for k >= 1<<uint(l) {
						k -= 1 << uint(l)
						l++
					}
					var parts []string
					style := 0
					if i%2 == 1 {
						style = 1 + r.Intn(len(c14Prefixes))
					}
					for j := 0; j < l; j++ {
						if k>>uint(j)&1 == 1 {
							parts = append(parts, c14Numbers[r.Intn(len(c14Numbers))])
						} else {
							parts = append(parts, c14Pick(r, words, style))
						}
					}
					emit(core.Case{In: strings.Join(parts, " "), Kind: "seq"})
				}
			case "randid":
				// bulk: millions of distinct random identifiers between numbers
				// (a look-up that confuses a non-keyword with a keyword - e.g. by
				// hash - shows only for a few words in a million)
				r := core.NewRng(w.R.Seed, "c14rid", fmt.Sprint(u.Lo))
				for i := u.Lo; i < u.Hi; i++ {
					switch i % 3 {
					case 0:
						emit(core.Case{In: "1 " + c14RandomIdent(r) + " 1", Kind: "rid"})
					case 1:
						emit(core.Case{In: c14RandomIdent(r) + " " + c14RandomIdent(r) + " 7", Kind: "rid"})
					default:
						emit(core.Case{In: "3 " + c14RandomIdent(r) + " 4 " + c14RandomIdent(r) + " 5", Kind: "rid"})
					}
				}
			case "lookalike":
				la := c14Lookalikes()
				r := core.NewRng(w.R.Seed, "c14look", fmt.Sprint(u.Lo))
				for i := u.Lo; i < u.Hi && i < uint64(len(la)); i++ {
					l := la[i]
					n := c14Numbers[r.Intn(5)]
					wd := c14Pick(r, words, 0)
					for _, in := range []string{l + " " + n, n + " " + l + " " + n, wd + " " + l + " " + n, l + " " + l + " " + n, n + " " + l, l, wd + " " + l + " " + wd + " " + l + " " + wd} {
						emit(core.Case{In: in, Kind: "look"})
					}
				}
			case "longword":
				// one very long identifier whose tail spells a keyword, with the
				// keyword starting at every offset around a power of two (+32: the
				// word lexer's first window)
				for i := u.Lo; i < u.Hi; i++ {
					B := c14LongBounds[i/69]
					d := int(i%69) - 34
					if B+d < 1 {
						continue
					}
					for ki, kw := range []string{"limit", "union", "select", "having", "or", "and"} {
						if (int(i)+ki)%2 == 0 && B > 4096 {
							continue
						}
						word := strings.Repeat("a", B+d) + kw
						if !c14Admitted(word) {
							continue
						}
						emit(core.Case{In: word + " 25", Kind: "longword"})
						emit(core.Case{In: "7 " + word + " 3", Kind: "longword"})
					}
				}
			case "resplit":
				// the letters of a two-word table phrase split at another place
				// ("grou pby", "unio nall"), asked right after the real phrase was
				// (One asks the phrase first): a phrase memo keyed without the blank
				for k, v := range keywords() {
					if v == 'F' || strings.Count(k, " ") != 1 {
						continue
					}
					low := strings.ToLower(k)
					letters := strings.ReplaceAll(low, " ", "")
					ok := true
					for i := 0; i < len(letters); i++ {
						if !isLetter(letters[i]) {
							ok = false
						}
					}
					if !ok {
						continue
					}
					sp := strings.IndexByte(low, ' ')
					for cut := 1; cut < len(letters); cut++ {
						if cut == sp {
							continue
						}
						w1, w2 := letters[:cut], letters[cut:]
						if !c14Admitted(w1) || !c14Admitted(w2) {
							continue
						}
						for _, f := range []string{"5 %s %s 7", "%s %s 3", "1 %s %s", "items %s %s 3"} {
							emit(core.Case{In: fmt.Sprintf(f, w1, w2), Kind: "resplit", S: low})
						}
					}
				}
			case "armoured":
				// every string of up to 7 atoms over the bytes whose hex code has no letter
				// (1 blank & ' ( ) " # %), written as ONE number: hex digit pairs, 3-digit
				// decimal and 3-digit octal codes ("3120262620283129" is "1 && (1)"): a
				// decoder tried on values that look armoured
				atoms := []string{"1", " ", "&&", "'", "(", ")", "\"", "#", "%"}
				var buf []byte
				l, _ := strconv.Atoi(u.Arg)
				for i := u.Lo; i < u.Hi && l >= 3; i++ {
					buf = gen.Enum(atoms, l, i, buf)
					var hx, dc, oc []byte
					for _, c := range buf {
						hx = append(hx, fmt.Sprintf("%02x", c)...)
						dc = append(dc, fmt.Sprintf("%03d", c)...)
						oc = append(oc, fmt.Sprintf("%03o", c)...)
					}
					emit(core.Case{In: string(hx), Kind: "armoured"})
					if l >= 6 {
						emit(core.Case{In: string(dc), Kind: "armoured"})
						emit(core.Case{In: string(oc), Kind: "armoured"})
						emit(core.Case{In: "zq " + string(hx), Kind: "armoured"})
					}
				}
			case "charcodes":
				// attacks written as lists of character codes: numbers only
				atks := append([]string{"1 or 1=1", "1 union select 2", "' or 'a'='a", "1;drop table t", "1 or 1=1 -- "}, c14Attacks...)
				for _, a := range atks {
					for _, sep := range []string{" ", "  ", ", ", ","} {
						for _, base := range []int{10, 8} {
							var parts []string
							for i := 0; i < len(a); i++ {
								parts = append(parts, strconv.FormatInt(int64(a[i]), base))
							}
							for cut := len(parts); cut >= 7; cut -= 3 {
								emit(core.Case{In: strings.Join(parts[:cut], sep), Kind: "charcodes"})
							}
							emit(core.Case{In: "codes " + strings.Join(parts, sep), Kind: "charcodes"})
						}
					}
				}
			case "unsplit":
				// the parts of every table key that is spelt with underscores, as
				// separate words ("uni on", "current user"): a look-up that tries
				// another joiner when the blank-joined phrase misses
				for k, v := range keywords() {
					if v == 'F' || !strings.Contains(k, "_") || strings.ContainsAny(k, " .") {
						continue
					}
					parts := strings.Split(strings.ToLower(k), "_")
					ok := len(parts) >= 2
					for _, p := range parts {
						if !c14Admitted(p) {
							ok = false
						}
					}
					if !ok {
						continue
					}
					sp := strings.Join(parts, " ")
					for _, f := range []string{"1 %s", "%s 2", "1 %s 3", "%s", "items %s 3 4", "5 6 %s"} {
						emit(core.Case{In: fmt.Sprintf(f, sp), Kind: "unsplit"})
					}
				}
			case "sqlish":
				// words of SQL grammars that are not in the table (row limiting,
				// window frames, DDL, transaction control ...), in pairs around
				// numbers: a new folding rule for such a clause fires on plain text
				var adm []string
				for _, x := range c14SQLish {
					if c14Admitted(x) {
						adm = append(adm, x)
					}
				}
				for i := u.Lo; i < u.Hi && i < uint64(len(c14SQLish)); i++ {
					w1 := c14SQLish[i]
					if !c14Admitted(w1) {
						continue
					}
					for _, w2 := range adm {
						for _, f := range []string{"%s 10 %s 25", "page %s 10 %s 25", "5 %s 3 %s 2", "%s %s 3", "1 %s %s", "%s 1 %s"} {
							emit(core.Case{In: fmt.Sprintf(f, w1, w2), Kind: "sqlish"})
						}
					}
				}
			case "embedded":
				for _, in := range c14EmbeddedPhrases() {
					emit(core.Case{In: in, Kind: "embedded"})
				}
			case "splice":
				// long benign text in which the first c bytes end with the head of a
				// keyword inside one word and the last c bytes start with its tail
				// inside another ("... lime ... habit ..." around c = 4096): a scanner
				// that looks only at both ends and joins them reads "limit"
				for i := u.Lo; i < u.Hi; i++ {
					c := c14SpliceCuts[int(i)/len(c14SpliceWords)]
					kw := c14SpliceWords[int(i)%len(c14SpliceWords)]
					for cut := 1; cut < len(kw); cut++ {
						w1 := kw[:cut] + "qz" // first word: keyword head + letters
						w2 := "zq" + kw[cut:] // second word: letters + keyword tail
						if !c14Admitted(w1) || !c14Admitted(w2) {
							continue
						}
						for _, total := range []int{2*c + 7, 2*c + 100, 3 * c} {
							// head: digits, blank, w1 so that kw[:cut] ends at offset c
							headPad := c - cut - 1
							tailKeep := c - len(kw[cut:])
							mid := total - c - (len(w1) - cut) - len(w2) + len(kw[cut:]) - c
							if headPad < 1 || tailKeep < 2 || mid < 1 {
								continue
							}
							in := strings.Repeat("7", headPad) + " " + w1 + " " + strings.Repeat("8", mid) + " " + w2 + " " + strings.Repeat("9", tailKeep-1)
							emit(core.Case{In: in, Kind: "splice"})
						}
					}
				}
			case "huge":
				// very large benign bodies (a size policy that fails closed)
				sz := hugeSizes(u.Arg)
				for i := u.Lo; i < u.Hi; i++ {
					n := sz[int(i)/3]
					unit := []string{"lorem ipsum dolor sit amet ", "word 42 ", "a"}[int(i)%3]
					emit(core.Case{In: gen.Scale("", unit, "", n), Desc: gen.ScaleDesc("", unit, "", n), Kind: "huge"})
				}
			case "shape":
				r := core.NewRng(w.R.Seed, "c14shape", fmt.Sprint(u.Lo))
				var shapes []string
				for _, s := range c14Shapes {
					if _, dropped := c14Dropped[s]; !dropped {
						shapes = append(shapes, s)
					}
				}
				for i := u.Lo; i < u.Hi; i++ {
					sh := shapes[int(i)%len(shapes)]
					emit(core.Case{In: c14Instantiate(sh, r, words), Kind: "shape", S: sh})
				}
			}
		},
		One: func(w *core.Worker, c core.Case) {
			if c.Kind == "abstraction" {
				kw := keywords()
				n := 0
				for l := 1; l <= 5; l++ {
					for m := 0; m < 1<<uint(l); m++ {
						b := make([]byte, l)
						for j := 0; j < l; j++ {
							if m>>uint(j)&1 == 1 {
								b[j] = '1'
							} else {
								b[j] = 'N'
							}
						}
						w.Eval(1)
						n++
						if v, ok := kw["0"+string(b)]; ok {
							w.SetCur(core.Case{Kind: "abstraction", S: string(b)})
							w.Violate("benign-fingerprint-blacklisted", fmt.Sprintf("the live table holds %q (%c): a run of plain words/numbers with this class sequence would be reported", "0"+string(b), v))
						}
						w.Nontrivial("abs|" + string(b))
					}
				}
				w.Count("abstract_sequences_checked", uint64(n))
				w.Count("admitted_words", uint64(len(c14WordList())))
				return
			}
			w.Eval(1)
			// history spice: attack inputs are interleaved in the same process and
			// benign inputs asked ~500 cases earlier are asked again (a result
			// cache that leaks an attack's verdict to a benign input shows here)
			st, _ := w.Local["c14"].(*c14State)
			if st == nil {
				st = &c14State{}
				w.Local["c14"] = st
			}
			st.n++
			if st.n%8 == 0 {
				// distinct attack strings (a counter in a trailing comment), so that
				// each one is a new entry for any cache
				li.IsSQLi(c14Attacks[(st.n/8)%len(c14Attacks)] + " -- " + strconv.Itoa(st.n*31+w.ID))
			}
			if st.n%8 == 4 && len(c.In) >= 24 && len(c.In) <= 4096 {
				// a caller that recycles its request buffer (zero-copy string views,
				// as fasthttp-style servers hand them out): an attack of exactly this
				// input's length is scanned from the buffer, then the buffer is
				// overwritten in place with the benign input and scanned again. A
				// library that keeps a reference to an earlier input compares the
				// new bytes with "themselves" and answers from memory.
				n := len(c.In)
				if cap(st.buf) < n {
					st.buf = make([]byte, n, 2*n)
				}
				buf := st.buf[:n]
				att := c14Attacks[(st.n/8)%len(c14Attacks)] + " -- "
				if len(att) <= n {
					copy(buf, att)
					for i := len(att); i < n; i++ {
						buf[i] = 'x'
					}
					view := unsafe.String(&buf[0], n)
					li.IsSQLi(view)
					copy(buf, c.In)
					if ab, af := li.IsSQLi(view); ab || af != "" {
						w.ViolateConfirmed("benign-reported", fmt.Sprintf("IsSQLi(%q) = (%v,%q) when the caller's buffer had held an attack of the same length one call earlier (zero-copy string view over a recycled buffer): the library kept a reference to the earlier input", c.In, ab, af))
					}
					w.Count("recycled_buffer_asks", 1)
				}
			}
			if st.n%16 == 0 {
				slot := (st.n / 16) % len(st.ring)
				if old := st.ring[slot]; old != "" {
					if ob, of := li.IsSQLi(old); ob || of != "" {
						w.SetCur(core.Case{In: old, Kind: "re-asked"})
						// observed directly; a fresh single-call process cannot replay a history
						w.ViolateConfirmed("benign-reported", fmt.Sprintf("IsSQLi(%q) = (%v,%q) when the benign input was asked again after ~500 other calls (incl. attack inputs)", old, ob, of))
						w.SetCur(c)
					}
					w.Count("benign_inputs_re_asked", 1)
				}
				st.ring[slot] = c.In
			}
			if c.Kind == "resplit" {
				// the real phrase first, in three frames (answers ignored)
				li.IsSQLi("1 " + c.S + " 1")
				li.IsSQLi("select a from t " + c.S + " b")
				li.IsSQLi("1 " + c.S)
			}
			b, f := li.IsSQLi(c.In)
			if b || f != "" {
				w.Violate("benign-reported", fmt.Sprintf("IsSQLi(%q) = (%v,%q) for a member of the benign family (%s %s)\n%s", c.In, b, f, c.Kind, c.S, explainCascadeOf(c.In)))
				return
			}
			w.Nontrivial(c.In)
			if c.Kind == "rid" {
				w.Count("random_identifier_cases", 1)
				return
			}
			p := li.VerifSQLPassOn(c.In, sqlModes[0])
			if c.Kind == "seq" {
				ok := true
				for i := 0; i < len(p.Fingerprint); i++ {
					if p.Fingerprint[i] != 'n' && p.Fingerprint[i] != '1' {
						ok = false
					}
				}
				if ok {
					w.Count("seq_fingerprint_is_n1_only", 1)
				} else {
					w.Count("seq_fingerprint_has_other_class", 1)
					w.Observe("non_n1_fingerprints", p.Fingerprint)
				}
			}
			w.Observe("fingerprints_asis", p.Fingerprint)
			w.Sample(c.In)
		},
		Explain:     func(c core.Case) string { return explainCascadeOf(c.In) },
		Assumptions: []string{"the family is defined against the live keyword table (read through the accessor); the e-mail/decimal/sentence shapes were calibrated once on the repaired tree"},
	}
}

// hugeSizes: request-body sized inputs around the limits WAF deployments use
// (128 KiB no-files limit, 1 MiB, 10^6, 12.5 MiB = SecRequestBodyLimit, 16 MiB; thorough: 32 / 64 MiB)
func hugeSizes(tier string) []int {
	s := []int{131073, 1<<20 + 1, 1000001, 4<<20 + 1, 10000001, 13107201, 16<<20 + 1}
	if tier == "thorough" {
		s = append(s, 32<<20+1, 64<<20+1, 256<<20+1)
	}
	return s
}

var c14SpliceCuts = []int{256, 512, 1024, 2048, 4096, 8192, 16384, 32768, 65536}
var c14SpliceWords = []string{"limit", "union", "having", "select", "and", "or", "like", "between"}

var c14LongBounds = []int{32, 64, 128, 256, 1024, 4096, 32768, 65536, 65568}

type c14State struct {
	n    int
	ring [32]string
	buf  []byte
}

var c14Attacks = []string{"1 union select 1 from t", "1' or '1'='1", "1; drop table t", "x' and sleep(5) -- ", "1 or 1=1", "admin'--", "1\" or 1=1 #", "1 /*!50000union*/ select 1", "1 and 1=1 union select null,null -- ", "' or 'a'='a"}

// CalibrateC14 prints shapes with reported instances (construction tool).
func CalibrateC14() {
	words := c14WordList()
	r := core.NewRng(1, "calib14")
	for _, sh := range c14Shapes {
		fail := 0
		ex := ""
		for i := 0; i < 200000; i++ {
			s := c14Instantiate(sh, r, words)
			if b, _ := li.IsSQLi(s); b {
				fail++
				if ex == "" {
					ex = s
				}
			}
		}
		if fail > 0 {
			fmt.Printf("%s\t%d/200000 instances reported, e.g. %q\n", sh, fail, ex)
		}
	}
	fmt.Fprintf(os.Stderr, "words=%d\n", len(words))
}

// ---------------------------------------------------------------------------
// C19 — script-capable URL schemes through any encoding; decoder spec.

// refDecode is the decoder specification, written from the property text:
// (value, consumed). EOF = -1.
func refDecode(s string) (int, int) {
	if len(s) == 0 {
		return -1, 0
	}
	if s[0] != '&' {
		return int(s[0]), 1
	}
	amp := func() (int, int) { return '&', 1 }
	if len(s) < 3 || s[1] != '#' {
		return amp()
	}
	base, i := 10, 2
	if s[2] == 'x' || s[2] == 'X' {
		base, i = 16, 3
	}
	digit := func(c byte) int {
		switch {
		case c >= '0' && c <= '9':
			return int(c - '0')
		case base == 16 && c >= 'a' && c <= 'f':
			return int(c-'a') + 10
		case base == 16 && c >= 'A' && c <= 'F':
			return int(c-'A') + 10
		}
		return -1
	}
	if i >= len(s) || digit(s[i]) < 0 {
		return amp()
	}
	v := 0
	for ; i < len(s); i++ {
		if s[i] == ';' {
			return v, i + 1
		}
		d := digit(s[i])
		if d < 0 {
			return v, i
		}
		v = v*base + d
		if v > 0x1000FF {
			return amp()
		}
	}
	return v, i
}

// harmless elements that carry the URL attribute, harmless attributes in
// front of it, and ordinary markup in front of the tag (nothing here is black)
var c19Tags = []string{"a", "a", "a", "img", "set", "animate", "form", "button", "input", "area", "video", "source", "x", "td", "use", "image", "body", "q", "blockquote", "feimage"}

var c19Companions = []string{"attributeName=fill", "attributename=opacity", "attributeName=x", "type=image/png", "rel=noopener", "target=_blank", "download", "sandbox=''", "dur=1s", "begin=0", "id=a", "class=\"b c\"", "title='t'",
	"role=link", "data-x=1", "content=0", "http-equiv=refresh", "integrity=x", "crossorigin", "loading=lazy", "hidden", "xml:space=preserve", "method=post", "calcMode=discrete", "fill=freeze", "repeatCount=1", "x:y=z",
	"x/", "x /", "x//", "download/", "b=c/", "x/\t", "x\n/", "b='c'/", "x/ /", "/", "b=\"\"", "b=''"}

var c19DocPrefixes = []string{"", "", "<i>x</i >", "<b></b\n>text ", "<p/>", "<p>one</p><p>two</p >", "<br/><td a=b></td c='d'>", "</>", "<img alt=>", "<b c=>t", "<i x= ><b y=''>",
	"<p><plaintext>", "<plaintext>", "<xmp>", "<textarea>", "<title>x", "<listing>", "<select><option>", "<table><tr><td>", "<math><mi>", "<p><PlainText >", "<q cite=x>", "<template>", "<details open>"}

var c19DecAlpha = []string{"&", "#", "x", "X", ";", "0", "1", "9", "a", "f", "F", "g", "\x00", "\xff"}

func c19() *core.Check {
	urlAttrs := func() []string {
		var out []string
		for _, a := range li.VerifBlacks() {
			if a.Type == attrURL {
				out = append(out, strings.ToLower(a.Name))
			}
		}
		return out
	}
	schemes := []string{"javascript:", "vbscript:", "data:", "view-source:"}
	return &core.Check{
		ID: "C19",
		Rule: "(recall) for every scheme in {javascript:, vbscript:, data:, view-source:}: per-byte encodings in {literal, &#D;, &#D, &#0000D;, &#xH;, &#XH, &#x00H;} exhaustively for data: and the java prefix (8^5, 8^4) and sampled for the longer schemes, x leading junk (bytes <= 0x20, >= 0x7f, entity-encoded white space) x NUL/LF between scheme letters (also runs of 1-65537 ignorable characters / bytes at every position and as leading junk, with every length in 1020-1025, 4095-4097 and 65535-65537) x case masks; oracle: the URL predicate is true, and IsXSS(<a ATTR=quote(value)>) is true for every live URL attribute (also upper-/mixed-case, with NUL runs of 1-97 bytes inside the name, and preceded by the same attribute with a harmless value; on 17 harmless element names, behind one or two of 27 harmless companion attributes such as attributeName=fill, and behind 22 ordinary markup prefixes incl. <plaintext>, <xmp>, <textarea>, <title>; three cases in eight as injected text: behind a closing quote that is the first byte, behind x\" and inside an unquoted value) x 4 quotings; every scheme written out plainly with 21 real-world continuations (inline images with their real file signatures, text/html, svg) on every URL attribute in every quoting; unquoted values keep their leading white-space / NUL junk (the tokenizer skips it). " +
			"(decoder) every string over {& # x X ; 0 1 9 a f F g NUL 0xff} up to length 6 (thorough 7) plus boundary values around 0x1000FF in decimal and hex with 0-8 leading zeros and every tail, values that are small again modulo 2^31 ... 2^128 (wrap-around), and all 256 byte values in every position of a reference: (value, consumed) must equal the decoder specification, 1 <= consumed <= |s|. Non-trivial = decoder inputs starting with '&#' and all recall cases; distinct by input.",
		Plan: func(tier string, seed uint64) []core.Unit {
			L := 6
			rnd := uint64(300000)
			if tier == "thorough" {
				L = 7
				rnd = 40000000
			}
			var us []core.Unit
			for l := 0; l <= L; l++ {
				us = append(us, gen.RangeUnits("dec", gen.Pow(len(c19DecAlpha), l), 50000, strconv.Itoa(l))...)
			}
			us = append(us, core.Unit{Gen: "boundary", Lo: 0, Hi: 1})
			us = append(us, gen.RangeUnits("decbytes", 256, 16, "")...)
			us = append(us, gen.RangeUnits("enc-run", 64, 1, "")...)
			us = append(us, gen.RangeUnits("enc-data", gen.Pow(8, 5), 4096, "")...)
			us = append(us, gen.RangeUnits("enc-java", gen.Pow(8, 4), 4096, "")...)
			us = append(us, gen.RangeUnits("enc-rand", rnd, 20000, "")...)
			us = append(us, core.Unit{Gen: "literal", Lo: 0, Hi: 1})
			return us
		},
		Gen: func(w *core.Worker, u core.Unit, emit func(core.Case)) {
			switch u.Gen {
			case "dec":
				l, _ := strconv.Atoi(u.Arg)
				var buf []byte
				for i := u.Lo; i < u.Hi; i++ {
					buf = gen.Enum(c19DecAlpha, l, i, buf)
					emit(core.Case{In: string(buf), Kind: "dec"})
				}
			case "boundary":
				for _, v := range []int{0, 9, 10, 65, 0x7f, 0xff, 0x100, 0xffff, 0x10000, 0x10FFFF, 0x1000FE, 0x1000FF, 0x100100, 0x100101, 0x110000, 0x16A, 0x100006A, 0xFFFFFFFF, 1 << 40} {
					for z := 0; z <= 8; z++ {
						zeros := strings.Repeat("0", z)
						for _, tail := range []string{"", ";", "x", "a", "g", ";;", "&", " ", "0", "9;", "f"} {
							emit(core.Case{In: fmt.Sprintf("&#%s%d%s", zeros, v, tail), Kind: "dec"})
							emit(core.Case{In: fmt.Sprintf("&#x%s%x%s", zeros, v, tail), Kind: "dec"})
							emit(core.Case{In: fmt.Sprintf("&#X%s%X%s", zeros, v, tail), Kind: "dec"})
						}
					}
				}
				// values that are small again modulo 2^31 / 2^32 / 2^63 / 2^64 / 2^128:
				// an accumulator that is only range-checked at the end wraps around
				for _, sh := range []uint{31, 32, 63, 64, 65, 72, 128} {
					for _, mul := range []int64{1, 2, 3, 10, 255} {
						for _, t := range []int64{0, 10, 0x3A, 0x41, 0x4A, 0x6A, 0x74, 0xFF, 0x1000FF} {
							v := new(big.Int).Lsh(big.NewInt(mul), sh)
							v.Add(v, big.NewInt(t))
							for _, tail := range []string{";", "", "avascript:", "z"} {
								emit(core.Case{In: "&#" + v.Text(10) + tail, Kind: "dec"})
								emit(core.Case{In: "&#x" + v.Text(16) + tail, Kind: "dec"})
								emit(core.Case{In: "&#X" + strings.ToUpper(v.Text(16)) + tail, Kind: "dec"})
							}
						}
					}
				}
				for _, s := range []string{"&#99999999999999999999999999;", "&#xfffffffffffffffffffffffff;", "&#" + strings.Repeat("9", 400), "&#x" + strings.Repeat("f", 400), "&#" + strings.Repeat("0", 5000) + "65;"} {
					emit(core.Case{In: s, Kind: "dec"})
				}
			case "decbytes":
				// every byte value in every position of a reference
				for i := u.Lo; i < u.Hi; i++ {
					b := string([]byte{byte(i)})
					for _, t := range []string{"&#x" + b, "&#x6a" + b + "z", "&#x" + b + "6a;", "&#" + b, "&#1" + b, "&#10" + b + ";", "&" + b, "&" + b + "#", "&#X" + b + b, "&#x1" + b + "1;", "&#0" + b + "9", b + "&#1;", "&#x" + b + ";", "&#" + b + ";", "&#xf" + b, "&#9" + b} {
						emit(core.Case{In: t, Kind: "dec"})
					}
				}
			case "enc-run":
				// runs of ignorable characters inside the scheme and long leading junk
				// unit index = scheme*16 + position inside the scheme (position 0: leading junk)
				runs := []string{"\x00", "\n", "&#0;", "&#10;", "&#x0A;", "&#x00;", "\x00\n", "&#010;"}
				lens := []int{1, 2, 8, 28, 29, 33, 64, 200, 255, 256, 257, 1020, 1021, 1022, 1023, 1024, 1025, 2048, 4095, 4096, 4097, 65535, 65536, 65537}
				for i := u.Lo; i < u.Hi; i++ {
					si, p := int(i/16), int(i%16)
					if si >= len(schemes) {
						continue
					}
					sc := schemes[si]
					if p == 0 {
						for _, j := range []string{" ", "\t", "\x01", "\x7f", "\x80", "&#32;", "&#x9;", "&#10;", "\xc2\xa0", "&#0;"} {
							for _, k := range append([]int{7, 31, 32, 100, 1000}, lens...) {
								emit(core.Case{In: strings.Repeat(j, k) + sc + "x", Kind: "url", A: int64(k)})
							}
						}
						continue
					}
					if p >= len(sc) {
						continue
					}
					for _, rn := range runs {
						for _, k := range lens {
							// run lengths are in bytes of input for the long ones
							n := k
							if k > 300 {
								n = k / len(rn)
							}
							emit(core.Case{In: sc[:p] + strings.Repeat(rn, n) + sc[p:] + "x", Kind: "url", A: int64(p*7 + k)})
							if k > 300 && len(rn) > 1 {
								emit(core.Case{In: sc[:p] + strings.Repeat(rn, k) + sc[p:] + "x", Kind: "url", A: int64(p*7 + k)})
							}
						}
					}
				}
			case "enc-data", "enc-java":
				scheme := "data:"
				if u.Gen == "enc-java" {
					scheme = "java"
				}
				for i := u.Lo; i < u.Hi; i++ {
					var enc uint64
					x := i
					for j := 0; j < len(scheme); j++ {
						enc |= (x % 8) << (3 * uint(j))
						x /= 8
					}
					for _, lf := range []bool{true, false} {
						v := encodeScheme(scheme, enc, 0, i*0x9e3779b97f4a7c15, lf, 0) + "x"
						emit(core.Case{In: v, Kind: "url", A: int64(i % 97)})
					}
				}
			case "literal":
				// the schemes written out plainly with real-world continuations, on
				// every URL attribute in every quoting (an exemption for "harmless"
				// inline images or well-known values must not reach these)
				tails := []string{"x", "alert(1)", "text/html,x", "text/html;base64,PHNjcmlwdD4", "image/svg+xml,x", "image/svg+xml;base64,PHN2Zz4", "image/gif;base64,R0lGODlhAQABAAAAACw", "image/png;base64,iVBORw0KGgoAAAANSUhEUg", "image/jpeg;base64,/9j/4AAQSkZJRg",
					"image/jpg;base64,/9j/4AAQ", "image/webp;base64,UklGRhoAAABXRUJQ", "image/png,a;b", "image/gif;base64,R0lGODdhAQABAIAAAP///////ywAAAAAAQABAAACAkQBADs", "application/pdf;base64,JVBERi0", "font/woff2;base64,d09GMg", ",", ";base64,", "void(0)", "//x", "msgbox(1)", "http://a/b"}
				na := len(urlAttrs())
				for si, sc := range schemes {
					for ti, t := range tails {
						for ai := 0; ai < na; ai++ {
							for qi := 0; qi < 4; qi++ {
								v := sc + t
								if (si+ti+ai+qi)%4 == 1 {
									v = strings.ToUpper(sc) + t
								}
								emit(core.Case{In: v, Kind: "urllit", B: int64(ai), C: int64(qi)})
							}
						}
					}
				}
			case "enc-rand":
				r := core.NewRng(w.R.Seed, "c19", fmt.Sprint(u.Lo))
				for i := u.Lo; i < u.Hi; i++ {
					sc := schemes[r.Intn(len(schemes))]
					inter := uint64(0)
					if r.Intn(2) == 0 {
						inter = r.U64() & r.U64() & 0x7fffff
					}
					junk := g04Junk[r.Intn(len(g04Junk))]
					if r.Intn(4) == 0 {
						junk += g04Junk[r.Intn(len(g04Junk))]
					}
					runLen := 0
					if r.Intn(24) == 0 {
						// one run of NUL / LF inside the scheme, or the leading junk, at a threshold length
						if r.Intn(2) == 0 {
							runLen = g04StretchLens[r.Intn(len(g04StretchLens))]
						} else {
							junk = stretchTo(junk, g04StretchLens[r.Intn(len(g04StretchLens))])
						}
					}
					v := junk + encodeScheme(sc, r.U64(), inter, r.U64(), true, runLen) + []string{"x", "alert(1)", "", "//a", "text/html,x", "image/svg+xml,<svg>", "image/png;base64,AAAA", "image/gif;base64,R0lGODlhAQABAAAAACw", "image/png;base64,iVBORw0KGgoAAAANSUhEUg", "image/jpeg;base64,/9j/4AAQSkZJRg", "image/webp;base64,UklGRhoAAABXRUJQ", "image/png,a;b", "IMAGE/SVG+XML;base64,x", "http://x/", "msgbox(1)", "void(0)", "void(0);fetch(1)", "alert(1)//javascript:void(0)", "void(0)//"}[r.Intn(19)]
					emit(core.Case{In: v, Kind: "url", A: int64(r.Intn(1 << 20))})
				}
			}
		},
		One: func(w *core.Worker, c core.Case) {
			w.Eval(1)
			s := c.In
			if c.Kind == "dec" {
				gv, gc := li.VerifHTMLDecode(s)
				wv, wc := refDecode(s)
				if gv != wv || gc != wc {
					w.Violate("decoder-mismatch", fmt.Sprintf("decode(%q) = (value %d, consumed %d); the decoder specification gives (%d, %d)", trunc(s, 120), gv, gc, wv, wc))
					return
				}
				if len(s) > 0 && (gc < 1 || gc > len(s)) {
					w.Violate("decoder-mismatch", fmt.Sprintf("decode(%q) consumed %d of %d bytes", trunc(s, 120), gc, len(s)))
					return
				}
				w.Count("decoder_inputs", 1)
				if strings.HasPrefix(s, "&#") {
					w.Nontrivial(s)
					switch {
					case gv == '&' && gc == 1:
						w.Count("decoder_exit_literal_amp", 1)
					case gc > 0 && gc <= len(s) && s[gc-1] == ';':
						w.Count("decoder_exit_semicolon", 1)
					case gc == len(s):
						w.Count("decoder_exit_end_of_input", 1)
					default:
						w.Count("decoder_exit_non_digit", 1)
					}
				}
				return
			}
			// recall
			if !li.VerifIsBlackURL(s) {
				w.Violate("scheme-not-recognised", fmt.Sprintf("the URL predicate returns false for %q", trunc(s, 200)))
				return
			}
			attrs := urlAttrs()
			if c.Kind == "urllit" {
				a := attrs[int(c.B)%len(attrs)]
				q := g04Quotes[int(c.C)%len(g04Quotes)]
				if q == "" && strings.ContainsAny(s, " >") {
					q = "'"
				}
				tag := []string{"img", "a", "video", "body", "x"}[int(c.B+c.C)%5]
				doc := "<" + tag + " " + a + "=" + q + s + q + ">"
				if !li.IsXSS(doc) {
					w.Violate("scheme-not-recognised", fmt.Sprintf("IsXSS(%q) = false although the value starts with a script-capable scheme\n%s", trunc(doc, 200), explainXSS(doc)))
					return
				}
				w.Count("recall_cases", 1)
				w.Nontrivial(doc)
				return
			}
			a := attrs[int(c.A)%len(attrs)]
			q := g04Quotes[int(c.A/7)%len(g04Quotes)]
			val := s
			if q == "" {
				// unquoted values end at white space / '>'; white space and NULs in
				// front of the value are skipped by the tokenizer and stay
				lead := 0
				for lead < len(val) && strings.IndexByte(" \t\n\r\f\v\x00", val[lead]) >= 0 {
					lead++
				}
				val = val[:lead] + strings.Map(func(r rune) rune {
					switch r {
					case ' ', '\t', '\n', '\r', '\f', '\v', '>':
						return -1
					}
					return r
				}, val[lead:])
				if !li.VerifIsBlackURL(val) {
					q = "\""
					val = s
				}
			} else if strings.Contains(val, q) {
				q = "\""
			}
			// attribute name obfuscation: case and NUL runs inside the name
			switch int(c.A) % 5 {
			case 1:
				a = strings.ToUpper(a)
			case 2:
				a = a[:1] + "\x00" + a[1:]
			case 3:
				a = a[:len(a)-1] + strings.Repeat("\x00", 1+int(c.A)%97) + a[len(a)-1:]
			case 4:
				a = applyMask(a, uint64(c.A)*0x9e3779b97f4a7c15)
			}
			// the element is any harmless one, and other harmless attributes may
			// stand before the URL attribute (each attribute is judged on its own,
			// whatever was declared before it on the same tag)
			hx := core.Hash64(s) ^ uint64(c.A)*0x9e3779b97f4a7c15
			tag := c19Tags[hx%uint64(len(c19Tags))]
			comp := ""
			if hx>>8%3 == 0 {
				comp = c19Companions[hx>>16%uint64(len(c19Companions))] + " "
				if hx>>12%4 == 0 {
					comp += c19Companions[hx>>24%uint64(len(c19Companions))] + " "
				}
			}
			doc := "<" + tag + " " + comp + a + "=" + q + val + q + ">"
			if int(c.A)%3 == 0 {
				// the same attribute once before with a harmless value (duplicate
				// attributes: each occurrence is judged on its own)
				doc = "<" + tag + " " + strings.ToLower(strings.ReplaceAll(a, "\x00", "")) + "=/home " + comp + a + "=" + q + val + q + ">"
			}
			// the same attribute as injected text: behind the closing quote of the
			// value it lands in (as the very first byte, or after some text), or inside
			// an unquoted value
			if k := hx >> 32 % 8; k >= 5 {
				lowa := strings.ToLower(strings.ReplaceAll(a, "\x00", ""))
				q0 := []string{"'", "\"", "`"}[hx>>36%3]
				switch k {
				case 5:
					doc = q0 + a + "=" + q + val + q + " "
				case 6:
					doc = "x" + q0 + " " + comp + a + "=" + q + val + q + ">"
				default:
					doc = "x " + comp + lowa + "=" + q + val + q + " y"
				}
				if q == q0 && k != 7 {
					// the value's own quote would pair up with the breakout quote
					doc = "<" + tag + " " + a + "=" + q + val + q + ">"
				}
			}
			// ordinary markup in front of the tag (the verdict must come from the
			// URL value: nothing in these prefixes is black)
			if strings.HasPrefix(doc, "<") {
				doc = c19DocPrefixes[int(c.A/11)%len(c19DocPrefixes)] + doc
			}
			if !li.IsXSS(doc) {
				w.Violate("scheme-not-recognised", fmt.Sprintf("IsXSS(%q) = false although the value decodes to a script-capable scheme\n%s", trunc(doc, 200), explainXSS(doc)))
				return
			}
			w.Count("recall_cases", 1)
			w.Observe("url_attributes", a)
			w.Nontrivial(doc)
			w.Sample(doc)
		},
		Explain: func(c core.Case) string {
			if c.Kind == "dec" {
				gv, gc := li.VerifHTMLDecode(c.In)
				wv, wc := refDecode(c.In)
				return fmt.Sprintf("implementation (%d,%d) specification (%d,%d)", gv, gc, wv, wc)
			}
			return fmt.Sprintf("isBlackURL = %v", li.VerifIsBlackURL(c.In))
		},
	}
}
