package mon

import (
	"fmt"
	"strconv"
	"strings"
	"sync"

	li "github.com/corazawaf/libinjection-go"

	"verif/harness/core"
)

// G_xss — the canonical vector grammar of C04.
//
//	vector := tag | attr | markup, placed behind a breakout prefix
//	tag    := '<' NAME end                 NAME from the live black-tag list
//	attr   := NAME '=' value               NAME: on<event> (all live events), style/filter,
//	                                       URL attributes x schemes, xmlns/xlink/datasrc/dataformatas,
//	                                       attributename=<black attribute>
//	markup := DOCTYPE / ENTITY / <?import / <?xml / IE conditional / back-tick comment
//
// Obfuscation axes: case mask, NUL inside names, separator before the
// attribute, quoting of the value, character-reference encodings of scheme
// bytes, leading junk, NUL/LF between scheme letters.
// Lists come from the live tables (a removed entry is C20's business; every
// present entry is exercised here). Productions dropped by the one-time
// calibration are in grammar/g04_dropped.txt.

type g04Vec struct {
	kind  string // tag | event | style | url | black | indirect | markup
	name  string // lower-case name
	value string // scheme (url), attribute named (indirect), raw text (markup)
}

var g04Once sync.Once
var g04Vecs []g04Vec
var g04Dropped = map[string]string{}

const (
	attrNone     = 0
	attrBlack    = 1
	attrURL      = 2
	attrStyle    = 3
	attrIndirect = 4
)

var g04Schemes = []string{"javascript:", "vbscript:", "data:", "view-source:", "java", "DATA"}

func g04Init() {
	loadDrops("g04_dropped.txt", g04Dropped)
	add := func(v g04Vec) {
		if _, ok := g04Dropped[v.kind+"|"+v.name+"|"+v.value]; ok {
			return
		}
		if _, ok := g04Dropped[v.kind+"|"+v.name+"|*"]; ok {
			return
		}
		g04Vecs = append(g04Vecs, v)
	}
	for _, t := range li.VerifBlackTags() {
		add(g04Vec{kind: "tag", name: strings.ToLower(t)})
	}
	for _, e := range li.VerifBlackEvents() {
		if e.Type == attrBlack {
			add(g04Vec{kind: "event", name: "on" + strings.ToLower(e.Name)})
		}
	}
	for _, a := range li.VerifBlacks() {
		n := strings.ToLower(a.Name)
		switch a.Type {
		case attrBlack:
			add(g04Vec{kind: "black", name: n})
		case attrStyle:
			add(g04Vec{kind: "style", name: n})
		case attrURL:
			for _, s := range g04Schemes {
				add(g04Vec{kind: "url", name: n, value: s})
			}
		case attrIndirect:
			for _, v := range []string{"onclick", "onerror", "xmlns", "xlink", "onload", "datasrc"} {
				add(g04Vec{kind: "indirect", name: n, value: v})
			}
		}
	}
	for _, n := range []string{"xmlns", "xlink"} {
		add(g04Vec{kind: "black", name: n})
	}
	for _, m := range []string{
		"<!DOCTYPE html>", "<!doctype x", "<!DOCTYPE", "<!doctype html PUBLIC \"x\">",
		"<!ENTITY x \"y\">", "<!entity % x>", "<!ENTITY", "<?import namespace=x>", "<?IMPORT x", "<?import",
		"<?xml version=\"1.0\"?>", "<?xml x>", "<?XML-stylesheet href=x>", "<?xml ",
		"<!--[if gte IE 4]><script>x</script><![endif]-->", "<!--[if x]>", "<!--[IF ", "<!--[if]",
		"<!-- ` -->", "<!--`", "<!x`>", "<?x`?>", "<%`%>",
	} {
		add(g04Vec{kind: "markup", name: "m", value: m})
	}
	// the same keywords followed by every other white-space byte, glued to what
	// follows, and the down-level-revealed conditional spelling
	for _, ws := range []string{"\t", "\n", "\r", "\f", "\v", "\r\n", "  ", "/", "%", "["} {
		for _, m := range []string{"<!ENTITY" + ws + "x SYSTEM \"y\">", "<?import" + ws + "namespace=t>", "<!DOCTYPE" + ws + "html>", "<?xml" + ws + "version=\"1.0\"?>", "<!--[if" + ws + "IE]>x<![endif]-->"} {
			add(g04Vec{kind: "markup", name: "m", value: m})
		}
	}
	for _, m := range []string{"<![if IE]>x<![endif]>", "<![IF !IE]>", "<!--[if IE]>a-->b<![endif]-->", "<!entityref>", "<?important>", "<!doctypes>", "<?xmlx>", "<!--[iframe]-->"} {
		add(g04Vec{kind: "markup", name: "m", value: m})
	}
}

func g04All() []g04Vec { g04Once.Do(g04Init); return g04Vecs }

// breakout prefixes. {text, forAttr}: attribute vectors need to land in an
// attribute-name position; tag/markup vectors in element content.
var g04TagPrefixes = []string{"", "abc ", "x>", "x >", "x'>", "x\">", "x`>", "'>", "\">", "`>", "x' >", "x\" />", "</b>", "--></style>",
	// an end tag closed after white space, a slash or a quoted value right before the vector
	"\"></a >", "'></p\n>", "x></b/>", "\"></a b='c'>", "</i\t>", "x></td >",
	// other complete constructs right before the vector
	"<!--x-->", "<!-- x --!>", "<![CDATA[x]]>", "<%x%>", "<?x?>", "</>", "<b/>", "<b c=d/>", "<b c='d'/>", "<b c=d>t</b>", "<!x>", "x<!---->", "<b c=\"d\"e=f>", "&lt;", "<b\x00c>", "<b c=d\x00>", "<b><![cdata[></b>", "<![cDaTa[x>", "<![CDATA[x]]><![cdata[>",
	// polyglot openers: the unquoted reading is swallowed by an unterminated comment,
	// <% block or CDATA section, the quoted readings break out behind the quote
	"<!--\">", "<!--'>", "<!--`>", "<!--x\" >", "<%\">", "<%'>", "<%x`>", "<![CDATA[\">", "<![CDATA['>", "<![CDATA[x`>", "<!--x' y\">",
	// complete blocks whose body holds one quote of each kind (every quoted reading ends up in
	// a value that never closes: only the element-content reading sees the vector) and ends in
	// bytes of its own terminator
	"<%' a=\" b=' 100%%>", "<%' a=\" b=' %>", "<%' a=\" b=' x%%%>", "<!--' a=\" b=' --->", "<!--' a=\" b=' x---->", "<!--' a=\" b=' -!--!>", "<![CDATA[' a=\" b=' ]]]>", "<![CDATA[' a=\" b=' ]]]]>", "<?' a=\" b=' ??>", "<!' a=\" b=' -->", "<%' a=\" b=' %-%>", "<!--' a=\" b=' ->-->", "<![CDATA[' a=\" b=' ]>]]>",
	"<%x%%>", "<%%%>", "<!--x--->", "<!------>", "<![CDATA[x]]]>", "<%@ x=\"y\" %%>",
	// the same without any quote: only the unquoted reading gets past the opener
	"<!-->", "x <!-- y >", "<%>", "<![CDATA[>", "<!--x>", "<% x >", "<!--->", "<!-- - >", "a<![CDATA[ b > ", "<%-- x >"}

type g04AttrPrefix struct {
	text   string
	needGT bool // data context: a host tag is opened by the prefix
}

var g04AttrPrefixes = []g04AttrPrefix{
	{"<a ", true}, {"<img/", true}, {"<a b=c ", true}, {"<a b='c'", true}, {"text <b ", true},
	{"</a ", true}, {"<b/><a ", true}, {"</p ><img ", true}, {"<!--x--><a ", true}, {"<a b=\"c\"", true}, {"<a b=`c`", true}, {"<a\n", true}, {"<a b ", true}, {"<a b= c ", true},
	{"x ", false}, {"x/", false}, {"", false},
	{"x' ", false}, {"x'/", false}, {"x'", false}, {"' ", false},
	{"x\" ", false}, {"x\"/", false}, {"x\"", false}, {"\" ", false},
	{"x` ", false}, {"x`/", false}, {"x`", false}, {"` ", false},
	// the closing quote is the very first byte, nothing before the attribute
	{"`", false}, {"'", false}, {"\"", false}, {"`/", false}, {"'/", false}, {"\"/", false},
}

var g04Seps = []string{"", " ", "\t", "\n", "\v", "\f", "\r", "/", "  ", " / "}
var g04Quotes = []string{"", "'", "\"", "`"}
var g04TagEnds = []string{">", " ", "/", "\n", "", "\t", "\f", "/>", " x=y>", "\r"}

type g04Opts struct {
	mask   uint64
	nulAt  int // insert NUL inside the name at this interior position (-1: none)
	sep    int
	quote  int
	end    int
	prefix int
	enc    uint64 // per-scheme-byte encoding choices (3 bits each)
	junk   int
	inter  uint64 // bit i: insert NUL/LF before scheme byte i
	eqPad  int
	dup    int // 1: the same attribute name, harmless, right before; 2: in a previous tag
	// stretch: one obfuscation grown to a threshold length (a limit, a window
	// or a fast path that depends on a length shows only there).
	// 1 separator run, 2 NUL/LF run inside the scheme, 3 leading-junk run,
	// 4 white-space run around '=', (NUL runs inside names go through nulAt)
	unclosed   bool // the value's opening quote is never closed (the vector ends the input)
	leadNul    int  // NUL bytes between '<' and the tag name (tag vectors)
	stretch    int
	stretchLen int
	// wide: character references above 0xFF whose low byte is the scheme
	// letter (the classifier narrows decoded values to one byte). Outside the
	// C04 grammar: used only by the conformance workloads.
	wide bool
}

var g04StretchLens = []int{63, 64, 65, 255, 256, 257, 1023, 1024, 1025, 2047, 2048, 4095, 4096, 4097, 4098, 8192, 16385, 65536, 65537}

func stretchTo(unit string, n int) string {
	if unit == "" || n <= len(unit) {
		return unit
	}
	return strings.Repeat(unit, n/len(unit))
}

var g04Junk = func() []string {
	j := []string{"", " ", "\x01", "\x7f\x80", "\t\n\r ", "\x00 ", "&#32;", "&#x20;&#9;", "\xff\xfe ", "&#0;&#x1;", "&#00000032;", "&#x0000A;", "\xa0", "\xc2\xa0", "\xe3\x80\x80", "\x80\x80\x80", "&#10&#13"}
	// every single control byte, DEL and a spread of high bytes
	for b := 1; b <= 32; b++ {
		j = append(j, string([]byte{byte(b)}))
	}
	for _, b := range []byte{0x7f, 0x80, 0x81, 0x9f, 0xa1, 0xbf, 0xc0, 0xe0, 0xf8, 0xff} {
		j = append(j, string([]byte{b}), string([]byte{b, ' '}))
	}
	return j
}()
var g04EqPad = [][2]string{{"", ""}, {" ", ""}, {"", " "}, {" ", " "}, {"\n", "\t"}, {"\r", ""}, {"\f", ""}, {"\v", ""}, {"\t", ""}, {"\n", ""}, {"", "\r"}, {"", "\f"}, {"", "\v"}, {"", "\n"}, {"\r\n", ""}, {"", "\x00"}, {"\x00", ""}}

func applyMask(s string, mask uint64) string {
	b := []byte(s)
	k := uint(0)
	for i, c := range b {
		if c >= 'a' && c <= 'z' {
			if mask>>(k&63)&1 == 1 {
				b[i] = c - 0x20
			}
			k++
		} else if c >= 'A' && c <= 'Z' {
			if mask>>(k&63)&1 == 0 {
				b[i] = c + 0x20
			}
			k++
		}
	}
	return string(b)
}

func insertNul(name string, at int) string {
	if at <= 0 {
		return name
	}
	run := 1
	if at >= 1000 {
		// at = 1000*run + position: a run of NULs
		run, at = at/1000, at%1000
	}
	if at <= 0 || at >= len(name) {
		return name
	}
	return name[:at] + strings.Repeat("\x00", run) + name[at:]
}

func isHexDigit(c byte) bool {
	return c >= '0' && c <= '9' || c >= 'a' && c <= 'f' || c >= 'A' && c <= 'F'
}

// encodeScheme renders each scheme byte with the chosen encoding:
// 0 literal, 1 &#D; 2 &#D 3 &#0..0D; (1-12 zeros) 4 &#xH; 5 &#XH 6 &#x0..0H; (1-12 zeros) 7 literal.
func encodeScheme(s string, enc, inter uint64, mask uint64, lfOK bool, runLen int) string {
	return encodeSchemeW(s, enc, inter, mask, lfOK, runLen, false)
}

func encodeSchemeW(s string, enc, inter uint64, mask uint64, lfOK bool, runLen int, wide bool) string {
	s = applyMask(s, mask)
	var b strings.Builder
	runAt := -1
	if runLen > 0 && len(s) > 1 {
		runAt = 1 + int((enc^inter)%uint64(len(s)-1))
	}
	for i := 0; i < len(s); i++ {
		c := s[i]
		if i == runAt {
			if lfOK && enc>>40&1 == 1 {
				b.WriteString(strings.Repeat("\n", runLen))
			} else {
				b.WriteString(strings.Repeat("\x00", runLen))
			}
		}
		if inter>>(uint(i)&63)&1 == 1 && i > 0 {
			// an ignorable character between two scheme letters: raw, or written
			// as a numeric character reference
			switch k := inter >> (uint(i*3+5) & 63) & 7; {
			case k == 4:
				b.WriteString("&#0;")
			case k == 5:
				b.WriteString("&#x00;")
			case k == 6 && lfOK:
				b.WriteString("&#10;")
			case k == 7 && lfOK:
				b.WriteString("&#xA;")
			case k == 6:
				b.WriteString("&#000;")
			case !lfOK || inter>>(uint(i+17)&63)&1 == 1:
				b.WriteByte(0)
			default:
				b.WriteByte('\n')
			}
		}
		e := (enc >> (3 * uint(i%21))) & 7
		// what follows decides whether a reference without ';' is well formed
		nextLit := byte(0)
		if i+1 < len(s) {
			ne := (enc >> (3 * uint((i+1)%21))) & 7
			if ne == 0 || ne == 7 {
				nextLit = s[i+1]
			}
			if inter>>(uint(i+1)&63)&1 == 1 || i+1 == runAt {
				nextLit = 0
			}
		} else {
			nextLit = 'x' // the grammar appends "x..." after the scheme
		}
		if wide && (e == 1 || e == 4) && (enc>>uint(i%13))&1 == 1 {
			cp := int(1+(enc>>50^uint64(i)*977)%0x1000)<<8 | int(c)
			if e == 1 {
				fmt.Fprintf(&b, "&#%d;", cp)
			} else {
				fmt.Fprintf(&b, "&#x%X;", cp)
			}
			continue
		}
		switch e {
		case 1:
			fmt.Fprintf(&b, "&#%d;", c)
		case 2:
			if nextLit >= '0' && nextLit <= '9' {
				fmt.Fprintf(&b, "&#%d;", c)
			} else {
				fmt.Fprintf(&b, "&#%d", c)
			}
		case 3:
			// 1-12 leading zeros
			fmt.Fprintf(&b, "&#%s%d;", strings.Repeat("0", 1+int((enc^(enc>>7)^uint64(i)*2654435761)%12)), c)
		case 4:
			fmt.Fprintf(&b, "&#x%x;", c)
		case 5:
			if isHexDigit(nextLit) {
				fmt.Fprintf(&b, "&#X%X;", c)
			} else {
				fmt.Fprintf(&b, "&#X%X", c)
			}
		case 6:
			fmt.Fprintf(&b, "&#x%s%X;", strings.Repeat("0", 1+int((enc^(enc>>11)^uint64(i)*40503)%12)), c)
		default:
			b.WriteByte(c)
		}
	}
	return b.String()
}

func g04Render(v g04Vec, o g04Opts) string {
	switch v.kind {
	case "tag":
		name := insertNul(applyMask(v.name, o.mask), o.nulAt)
		return g04TagPrefixes[o.prefix%len(g04TagPrefixes)] + "<" + strings.Repeat("\x00", o.leadNul) + name + g04TagEnds[o.end%len(g04TagEnds)]
	case "markup":
		return g04TagPrefixes[o.prefix%len(g04TagPrefixes)] + applyMask(v.value, o.mask)
	}
	p := g04AttrPrefixes[o.prefix%len(g04AttrPrefixes)]
	name := insertNul(applyMask(v.name, o.mask), o.nulAt)
	q := g04Quotes[o.quote%len(g04Quotes)]
	var val string
	switch v.kind {
	case "url":
		junk := g04Junk[o.junk%len(g04Junk)]
		if q == "" {
			// an unquoted value ends at white space or '>'; white space / NUL in
			// front of it is skipped by the tokenizer and may stay, later white
			// space is dropped; scheme bytes are separated with NUL only
			lead := 0
			for lead < len(junk) && strings.IndexByte(" \t\n\r\f\v\x00", junk[lead]) >= 0 {
				lead++
			}
			junk = junk[:lead] + strings.Map(func(r rune) rune {
				switch r {
				case ' ', '\t', '\n', '\r', '\f', '\v', '>':
					return -1
				}
				return r
			}, junk[lead:])
		}
		if o.stretch == 3 {
			junk = stretchTo(junk, o.stretchLen)
		}
		runLen := 0
		if o.stretch == 2 {
			runLen = o.stretchLen
		}
		rest := "x"
		if o.dup == 0 && o.enc>>33&3 == 1 && strings.HasSuffix(v.value, ":") {
			// what follows the scheme is arbitrary text
			rests := []string{"alert(1)", "text/html;base64,PHNj#data:image/png", "x//data:image/jpeg;base64,", "void(0)", "if(a<b)alert(1)", "x?a=1&b=2", "//example.com/#javascript:void(0)", "image/svg+xml,x"}
			rest = rests[int(o.enc>>35)%len(rests)]
			if q == "" {
				rest = strings.Map(func(r rune) rune {
					if r == ' ' || r == '>' {
						return -1
					}
					return r
				}, rest)
			} else if strings.Contains(rest, q) {
				rest = "x"
			}
		}
		val = junk + encodeSchemeW(v.value, o.enc, o.inter, o.mask>>7, q != "", runLen, o.wide) + rest
	case "indirect":
		val = insertNul(applyMask(v.value, o.mask>>5), int(o.inter%7))
		if o.wide && q != "" {
			// outside the C04 grammar: white space around the named attribute
			// (the reference compares the raw value)
			pads := []string{" ", "\t", "\n", "\xa0", "\x00", "\f"}
			if o.enc&1 == 1 {
				val = pads[int(o.enc>>1)%len(pads)] + val
			} else {
				val += pads[int(o.enc>>1)%len(pads)]
			}
		}
	default:
		val = []string{"x", "alert(1)", "1", "a:b", "x y"}[o.junk%5]
		if q == "" {
			val = strings.ReplaceAll(val, " ", "")
		}
	}
	pad := g04EqPad[o.eqPad%len(g04EqPad)]
	sep := g04Seps[o.sep%len(g04Seps)]
	switch o.stretch {
	case 1:
		if sep == "" {
			sep = []string{"/", " ", "\n", "\x00"}[o.mask>>9&3]
		}
		sep = stretchTo(sep, o.stretchLen)
	case 4:
		pad = [2]string{stretchTo(pad[0], o.stretchLen), stretchTo(pad[1], o.stretchLen)}
	}
	dup := ""
	if v.kind == "url" || v.kind == "indirect" {
		switch o.dup {
		case 1:
			dup = name + "=x "
		case 2:
			if p.needGT {
				dup = name + "=x>t</a><a "
			}
		}
	}
	if o.unclosed && q != "" {
		// the quote is opened and the input ends inside the value
		return p.text + sep + dup + name + pad[0] + "=" + pad[1] + q + val
	}
	s := p.text + sep + dup + name + pad[0] + "=" + pad[1] + q + val + q
	if p.needGT || o.end%2 == 0 {
		s += ">"
	}
	return s
}

// genC04 emits vectors. Index layout: the first sweep covers every vector x
// every prefix x one choice on each axis in turn; beyond that, random
// products.
func genC04(w *core.Worker, u core.Unit, emit func(s, meta string)) {
	genC04x(w, u, false, emit)
}

// genC04x: wide = also emit vectors outside the C04 grammar (see g04Opts.wide).
func genC04x(w *core.Worker, u core.Unit, wide bool, emit func(s, meta string)) {
	vecs := g04All()
	nv := uint64(len(vecs))
	if nv == 0 {
		return
	}
	r := core.NewRng(w.R.Seed, "g04", fmt.Sprint(u.Lo))
	sweep := g04SweepSize()
	for i := u.Lo; i < u.Hi; i++ {
		var v g04Vec
		var o g04Opts
		o.nulAt = -1
		if i < sweep {
			v = vecs[i%nv]
			j := int(i / nv) // axis position
			np := len(g04AttrPrefixes)
			if v.kind == "tag" || v.kind == "markup" {
				np = len(g04TagPrefixes)
			}
			switch {
			case j < np:
				o.prefix = j
			case j < np+len(g04Seps):
				o.sep = j - np
				o.prefix = j % np
			case j < np+len(g04Seps)+len(g04Quotes):
				o.quote = j - np - len(g04Seps)
				o.prefix = (j * 3) % np
			case j < np+len(g04Seps)+len(g04Quotes)+4:
				o.mask = []uint64{^uint64(0), 0xAAAAAAAAAAAAAAAA, 0x5555555555555555, 0x3333333333333333}[j-np-len(g04Seps)-len(g04Quotes)]
				o.prefix = (j * 5) % np
			case j < np+len(g04Seps)+len(g04Quotes)+4+len(g04TagEnds):
				o.end = j - np - len(g04Seps) - len(g04Quotes) - 4
				o.prefix = (j * 7) % np
			case j < np+len(g04Seps)+len(g04Quotes)+4+len(g04TagEnds)+len(g04EqPad):
				o.eqPad = j - np - len(g04Seps) - len(g04Quotes) - 4 - len(g04TagEnds)
				o.prefix = (j * 13) % np
			case j < np+len(g04Seps)+len(g04Quotes)+4+len(g04TagEnds)+len(g04EqPad)+4:
				o.dup = 1 + (j-np-len(g04Seps)-len(g04Quotes)-4-len(g04TagEnds)-len(g04EqPad))%2
				o.prefix = (j * 3) % 5 // data-context prefixes carry a host tag
				o.quote = j % len(g04Quotes)
			default:
				// NUL at each interior position of the name; every third step also
				// 1-3 NULs in front of a tag name / the value's quote left open
				if j%3 == 0 {
					o.leadNul = 1 + j%3 + j%2
					o.unclosed = true
					o.quote = 1 + j%3
				}
				o.nulAt = 1 + (j - np - len(g04Seps) - len(g04Quotes) - 4 - len(g04TagEnds) - len(g04EqPad) - 4)
				if o.nulAt >= len(v.name) {
					o.nulAt = 1 + o.nulAt%max(1, len(v.name)-1)
				}
				o.prefix = (j * 11) % np
			}
		} else {
			v = vecs[r.Intn(len(vecs))]
			o = g04Opts{mask: r.U64(), nulAt: -1, sep: r.Intn(64), quote: r.Intn(64), end: r.Intn(64), prefix: r.Intn(1024), enc: r.U64(), junk: r.Intn(64), inter: 0, eqPad: r.Intn(64)}
			if r.Intn(3) == 0 && len(v.name) > 1 {
				o.nulAt = 1 + r.Intn(len(v.name)-1)
				if r.Intn(4) == 0 {
					o.nulAt += 1000 * (2 + r.Intn(120)) // NUL run
				}
			}
			if r.Intn(3) == 0 {
				o.inter = r.U64() & r.U64() & 0x7ffff
			}
			if r.Intn(4) == 0 {
				o.enc = 0
			}
			if r.Intn(6) == 0 {
				o.dup = 1 + r.Intn(2)
			}
			if r.Intn(8) == 0 {
				o.unclosed = true
			}
			if r.Intn(6) == 0 {
				o.leadNul = 1 + r.Intn(4)
			}
			if r.Intn(12) == 0 {
				o.stretchLen = g04StretchLens[r.Intn(len(g04StretchLens))]
				o.stretch = 1 + r.Intn(5)
				if o.stretch == 5 {
					// NUL run inside the name
					o.stretch = 0
					if len(v.name) > 1 {
						o.nulAt = 1 + r.Intn(len(v.name)-1) + 1000*o.stretchLen
					}
				}
			}
		}
		if wide && v.kind == "indirect" && i%3 == 0 {
			o.wide = true
		}
		if wide && v.kind == "url" && i%5 == 0 {
			o.wide = true
			if i%10 == 0 {
				o.mask |= 0xFFFFFFFFFFFFFF80 // scheme in upper case: the low byte matches
			}
		}
		emit(g04Render(v, o), v.kind+"|"+v.name+"|"+v.value)
	}
}

func max(a, b int) int {
	if a > b {
		return a
	}
	return b
}

func g04SweepSize() uint64 {
	axes := max(len(g04AttrPrefixes), len(g04TagPrefixes)) + len(g04Seps) + len(g04Quotes) + 4 + len(g04TagEnds) + len(g04EqPad) + 4 + 24
	return uint64(len(g04All())) * uint64(axes)
}

// C04 — canonical XSS vectors are detected in every HTML injection context.
func c04() *core.Check {
	return &core.Check{
		ID: "C04",
		Rule: "members of the fixed vector grammar G_xss built from the live lists (every black tag, every on* event, style/filter, every URL attribute x scheme, xmlns/xlink/datasrc/dataformatas, attributename indirection, DOCTYPE/ENTITY/<?import/<?xml/IE-conditional/back-tick-comment markup, the keywords also followed by every other white-space byte or by / % [, the <![if ..]> spelling) behind every breakout prefix (incl. complete constructs and polyglot openers such as <!--\"> whose unquoted reading is swallowed by an unterminated comment, <% block or CDATA section): an axis-wise sweep (every vector x every prefix, separator, quoting, case mask, tag end, NUL position) followed by random products incl. per-byte character-reference encodings, leading junk and NUL/LF inside schemes, NUL bytes between '<' and a tag name, values whose opening quote is never closed, and one in twelve with one obfuscation (separator run, NUL/LF run inside the scheme, leading junk, white space around '=', NUL run inside the name) stretched to a threshold length between 63 and 65537 bytes. Oracle: IsXSS = true. " +
			"Non-trivial = every member; distinct by string.",
		Plan: func(tier string, seed uint64) []core.Unit {
			total := g04SweepSize()
			if tier == "thorough" {
				total += 60000000
			} else {
				total += 400000
			}
			var us []core.Unit
			for lo := uint64(0); lo < total; lo += 20000 {
				hi := lo + 20000
				if hi > total {
					hi = total
				}
				us = append(us, core.Unit{Gen: "g04", Lo: lo, Hi: hi})
			}
			return us
		},
		Gen: func(w *core.Worker, u core.Unit, emit func(core.Case)) {
			genC04(w, u, func(s, meta string) { emit(core.Case{In: s, S: meta}) })
		},
		One: func(w *core.Worker, c core.Case) {
			w.Eval(1)
			if !li.IsXSS(c.In) {
				w.Violate("vector-not-detected", "IsXSS returned false for a member of the vector grammar ("+c.S+")\n"+explainXSS(c.In))
				return
			}
			w.Nontrivial(c.In)
			for i, ctx := range h5Ctxs {
				if li.VerifXSSCtx(c.In, ctx) {
					w.Count("fired_"+h5CtxNames[i], 1)
					break
				}
			}
			p := strings.SplitN(c.S, "|", 3)
			w.Observe("kinds", p[0])
			if len(p) > 1 && p[0] != "markup" {
				w.Observe("names", p[0]+":"+p[1])
			}
			w.Sample(c.In)
		},
		Explain:     func(c core.Case) string { return explainXSS(c.In) },
		Assumptions: []string{"G_xss is fixed; lists are read from the live tables at run time; calibrated once on the repaired tree"},
	}
}

func explainXSS(s string) string {
	out := fmt.Sprintf("IsXSS = %v\n", li.IsXSS(s))
	for i, ctx := range h5Ctxs {
		out += fmt.Sprintf("  %s: %v%s\n", h5CtxNames[i], li.VerifXSSCtx(s, ctx), dumpH5(s, ctx))
	}
	return out
}

// CalibrateC04 prints the vectors with undetected expansions (construction tool).
func CalibrateC04() {
	vecs := g04All()
	w := &core.Worker{}
	_ = w
	fails := map[string]int{}
	ex := map[string]string{}
	total := g04SweepSize() + 3000000
	run := &core.Run{Seed: 1}
	wk := run.NewWorkerBare()
	genC04(wk, core.Unit{Gen: "g04", Lo: 0, Hi: total}, func(s, meta string) {
		if !li.IsXSS(s) {
			fails[meta]++
			if _, ok := ex[meta]; !ok || len(s) < len(ex[meta]) {
				ex[meta] = s
			}
		}
	})
	for k, n := range fails {
		fmt.Printf("%s\t%d undetected, e.g. %s\n", k, n, strconv.Quote(ex[k]))
	}
	fmt.Printf("# vectors=%d failing=%d\n", len(vecs), len(fails))
}
