// Package mon holds one monitor per property.
package mon

import (
	"strconv"
	"strings"
	"sync"

	"verif/harness/core"
	"verif/harness/gen"
)

// Mix is one line of a tier's workload: a generator and how much of it.
type Mix struct {
	Gen  string // corpus | trunc | atoms | seq | mut | novel | bytes | scale | extra generator name
	Dict string // dictionary name for atoms/seq/mut
	K    int    // atoms: max sequence length
	N    uint64 // seq/mut/novel: number of cases
}

var dicts = map[string][]string{
	"sqlcore":    gen.SQLCore,
	"sqlext":     gen.SQLExt,
	"sqledge":    gen.SQLEdge,
	"sqlmid":     gen.SQLMid,
	"htmlbytes":  gen.HTMLBytes,
	"htmlfull":   gen.HTMLFull,
	"htmlmid":    gen.HTMLMid,
	"htmlbytes0": gen.HTMLBytesNoLtEq,
	"htmlfull0":  gen.HTMLFullNoLtEq,
}

type domain struct {
	name    string
	corpus  func() []string
	seps    []string
	openers []string
	mutDict []string
	scale   []scaleFam
	// scaleBase: the families before the prefix cross product
	scaleBase []scaleFam
	sig       func(string) string
	// byteTemplates: inputs with the placeholder "\xfe\xfe" standing for one
	// byte; instantiated with all 256 byte values
	byteTemplates []string
	// fillers used to pad inputs to threshold lengths
	fillers []string
	// opener/closer pairs that make the whole padding one token
	wraps [][2]string
	// countUnits / countFrames: one-token units repeated an exact number of
	// times (around 2^8 and 2^16) between a frame's two halves
	countUnits  []string
	countFrames [][2]string
	// aliasCases: inputs in which one letter of a table word is written as a
	// non-ASCII character that some case mapping relates to it
	aliasCases func() []string
	// seamPairs / seamPads: two features a whole number of 64 KiB blocks apart
	seamPairs [][2]string
	seamPads  []string
	// extraCases: further fixed case lists by generator name (planned in ranges)
	extraCases map[string]func() []string
}

// foldAliases: characters that a Unicode case mapping or case-insensitive
// comparison relates to an ASCII letter (KELVIN SIGN, LONG S, dotless and
// dotted I) and the fullwidth form that compatibility normalisation maps to it.
func foldAliases(c byte) []string {
	var out []string
	switch c | 0x20 {
	case 'k':
		out = append(out, "\u212a")
	case 's':
		out = append(out, "\u017f")
	case 'i':
		out = append(out, "\u0131", "\u0130")
	case 'a':
		out = append(out, "\u212b")
	}
	return out
}

// aliasSpellings: w with one letter replaced by each of its aliases, and w
// with its first letter in fullwidth form.
func aliasSpellings(w string) []string {
	var out []string
	for i := 0; i < len(w); i++ {
		for _, a := range foldAliases(w[i]) {
			out = append(out, w[:i]+a+w[i+1:])
		}
	}
	if len(w) > 0 && (w[0]|0x20) >= 'a' && (w[0]|0x20) <= 'z' {
		out = append(out, string(rune(0xff00+int(w[0])-0x20))+w[1:])
	}
	return out
}

func giantSizes(all bool) []int {
	if all {
		return []int{100<<20 + 1, 128<<20 + 1, 200<<20 + 1, 256<<20 + 1}
	}
	return []int{100<<20 + 1, 128<<20 + 1}
}

// seamKs: distances in 64 KiB blocks (all of 1..64 for the thorough tier)
func seamKs(all bool) []int {
	if !all {
		return []int{1, 2, 3, 4, 6, 8, 12, 16, 24, 32}
	}
	var out []int
	for k := 1; k <= 64; k++ {
		out = append(out, k)
	}
	return out
}

// counts around the limits of 8- and 16-bit counters
var wrapCounts = func() []int {
	var out []int
	for _, c := range []int{256, 65536} {
		for d := -6; d <= 4; d++ {
			out = append(out, c+d)
		}
	}
	return out
}()

type scaleFam struct{ prefix, unit, suffix string }

func planMix(d *domain, mixes []Mix) []core.Unit {
	var us []core.Unit
	for _, m := range mixes {
		switch m.Gen {
		case "corpus":
			us = append(us, core.Unit{Gen: "corpus", Lo: 0, Hi: uint64(len(d.corpus()))})
		case "trunc":
			us = append(us, gen.RangeUnits("trunc", uint64(len(d.corpus())), 16, "")...)
		case "atoms":
			chunk := uint64(40000)
			for _, u := range gen.EnumUnits("atoms", len(dicts[m.Dict]), m.K, chunk) {
				u.Arg = m.Dict + ":" + u.Arg
				us = append(us, u)
			}
		case "seq":
			us = append(us, gen.RangeUnits("seq", m.N, 20000, m.Dict)...)
		case "mut":
			us = append(us, gen.RangeUnits("mut", m.N, 20000, m.Dict)...)
		case "novel":
			us = append(us, gen.RangeUnits("novel", m.N, 25000, m.Dict)...)
		case "padded":
			us = append(us, gen.RangeUnits("padded", 120, 4, strconv.FormatUint(m.N, 10))...)
		case "bytes":
			us = append(us, core.Unit{Gen: "bytes", Lo: 0, Hi: 256})
			// every byte value in every template position of the domain
			us = append(us, gen.RangeUnits("bytetpl", 256, 16, "")...)
			// every two-byte UTF-8 character and three ranges of longer ones
			us = append(us, gen.RangeUnits("utf8tpl", uint64(len(utf8Chars())), 96, "")...)
		case "nulpad":
			us = append(us, gen.RangeUnits("nulpad", 12*32*4, 384, "")...)
		case "attrvals", "qualified", "gluelit", "nsattrs", "encatk", "dialect", "elements", "prose", "doubled", "toktails":
			if f := d.extraCases[m.Gen]; f != nil {
				us = append(us, gen.RangeUnits(m.Gen, uint64(len(f())), 10000, "")...)
			}
		case "foldalias":
			if d.aliasCases != nil {
				us = append(us, gen.RangeUnits("foldalias", uint64(len(d.aliasCases())), 20000, "")...)
			}
		case "giant":
			for i := range giantSizes(m.N == 1) {
				us = append(us, core.Unit{Gen: "giant", Lo: uint64(i), Hi: uint64(i + 1), Arg: strconv.FormatUint(m.N, 10)})
			}
		case "seam":
			ks := seamKs(m.N == 1)
			for i := 0; i < len(d.seamPairs)*len(d.seamPads)*len(ks); i++ {
				us = append(us, core.Unit{Gen: "seam", Lo: uint64(i), Hi: uint64(i + 1), Arg: strconv.FormatUint(m.N, 10)})
			}
		case "wrapcount":
			us = append(us, gen.RangeUnits("wrapcount", uint64(len(d.countUnits)*len(d.countFrames)*len(wrapCounts)), 24, "")...)
		case "scale1":
			// the families without the prefix cross product (d.scaleBase)
			for i := range d.scaleBase {
				us = append(us, core.Unit{Gen: "scale1", Lo: uint64(i), Hi: uint64(i + 1), Arg: strconv.FormatUint(m.N, 10)})
			}
		case "scale":
			// N = size in bytes; one unit per family so that workers share them
			for i := range d.scale {
				us = append(us, core.Unit{Gen: "scale", Lo: uint64(i), Hi: uint64(i + 1), Arg: strconv.FormatUint(m.N, 10)})
			}
		default:
			us = append(us, gen.RangeUnits(m.Gen, m.N, 20000, m.Dict)...)
		}
	}
	return us
}

// genMix emits the inputs of one unit. Returns false if the generator name
// is not one of the shared ones.
func genMix(d *domain, w *core.Worker, u core.Unit, emit func(core.Case)) bool {
	seed := w.R.Seed
	switch u.Gen {
	case "corpus":
		c := d.corpus()
		for i := u.Lo; i < u.Hi && i < uint64(len(c)); i++ {
			emit(core.Case{In: c[i]})
		}
	case "trunc":
		c := d.corpus()
		for i := u.Lo; i < u.Hi && i < uint64(len(c)); i++ {
			gen.Truncations(c[i], d.openers, func(s string) { emit(core.Case{In: s}) })
		}
	case "atoms":
		p := strings.SplitN(u.Arg, ":", 2)
		dict := dicts[p[0]]
		k, _ := strconv.Atoi(p[1])
		var buf []byte
		for i := u.Lo; i < u.Hi; i++ {
			buf = gen.Enum(dict, k, i, buf)
			emit(core.Case{In: string(buf)})
		}
	case "seq":
		dict := dicts[u.Arg]
		r := core.NewRng(seed, d.name, "seq", u.Arg, strconv.FormatUint(u.Lo, 10))
		for i := u.Lo; i < u.Hi; i++ {
			emit(core.Case{In: gen.RandSeq(r, dict, 12, d.seps)})
		}
	case "mut":
		dict := dicts[u.Arg]
		r := core.NewRng(seed, d.name, "mut", u.Arg, strconv.FormatUint(u.Lo, 10))
		c := d.corpus()
		for i := u.Lo; i < u.Hi; i++ {
			base := c[r.Intn(len(c))]
			if r.Intn(4) == 0 {
				base = gen.RandSeq(r, dict, 8, d.seps)
			}
			emit(core.Case{In: gen.Mutate(r, base, dict, c)})
		}
	case "novel":
		// novelty-guided growth: a case joins the pool when the signature
		// the monitors observe anyway is new. Deterministic per unit.
		dict := dicts[u.Arg]
		r := core.NewRng(seed, d.name, "novel", u.Arg, strconv.FormatUint(u.Lo, 10))
		c := d.corpus()
		pool := make([]string, 0, 512)
		for i := 0; i < 64; i++ {
			pool = append(pool, c[r.Intn(len(c))])
		}
		seen := map[string]bool{}
		for i := u.Lo; i < u.Hi; i++ {
			base := pool[r.Intn(len(pool))]
			if len(pool) > 64 && r.Intn(3) > 0 {
				// favour recent discoveries
				base = pool[len(pool)-1-r.Intn(min(len(pool), 48))]
			}
			s := gen.Mutate(r, base, dict, pool)
			emit(core.Case{In: s})
			if d.sig != nil && len(s) <= 512 {
				sg := func() (out string) {
					defer func() {
						if recover() != nil {
							out = ""
						}
					}()
					return d.sig(s)
				}()
				if sg != "" && !seen[sg] {
					seen[sg] = true
					if len(pool) < 4096 {
						pool = append(pool, s)
					} else {
						pool[64+r.Intn(len(pool)-64)] = s
					}
				}
			}
		}
		w.Count("novel_signatures", uint64(len(seen)))
	case "bytes":
		for i := u.Lo; i < u.Hi; i++ {
			b := string([]byte{byte(i)})
			for _, n := range []int{1, 2, 3, 33} {
				emit(core.Case{In: strings.Repeat(b, n)})
			}
		}
	case "padded":
		// short interesting inputs blown up to threshold lengths (a fast path or
		// a limit that depends on the input length shows only here)
		c := d.corpus()
		for i := u.Lo; i < u.Hi; i++ {
			base := c[(int(i)*37+11)%len(c)]
			lens := []int{255, 256, 257, 1024, 4096, 4097, 65536, 65537, 70000}
			all := d.fillers
			if u.Arg == "1" {
				lens = []int{255, 256, 257, 1023, 1024, 1025, 4095, 4096, 4097, 8191, 8192, 16385, 32768, 65535, 65536, 65537, 70000, 131073}
			}
			for li, n := range lens {
				// quick: three fillers per (base, length), rotating through the list
				fillers := all
				if u.Arg != "1" {
					k := (int(i)*7 + li*3) % len(all)
					fillers = []string{all[k], all[(k+1)%len(all)], all[(k+2)%len(all)]}
				}
				for pi, filler := range fillers {
					k := n - len(base)
					if k <= 0 {
						continue
					}
					pad := strings.Repeat(filler, k/len(filler)+1)[:k]
					if (int(i)+pi+li)%5 == 4 && k > 8 && len(d.wraps) > 0 {
						// the padding as ONE token spanning the threshold (a comment, a
						// string, a quoted attribute value) instead of many small ones
						wr := d.wraps[(int(i)+li)%len(d.wraps)]
						pad = wr[0] + strings.Repeat("a", k-len(wr[0])-len(wr[1])) + wr[1]
					}
					switch (int(i) + pi) % 3 {
					case 0:
						emit(core.Case{In: base + pad})
					case 1:
						emit(core.Case{In: pad + base})
					default:
						emit(core.Case{In: base[:len(base)/2] + pad + base[len(base)/2:]})
					}
				}
			}
		}
	case "bytetpl":
		for i := u.Lo; i < u.Hi; i++ {
			b := string([]byte{byte(i)})
			for _, t := range d.byteTemplates {
				emit(core.Case{In: strings.ReplaceAll(t, "\xfe\xfe", b)})
				// the same byte as a run around the token-length limits (31/32
				// for SQL token values, 5/6 for the comment prefix test)
				for _, n := range []int{5, 6, 31, 32, 33} {
					emit(core.Case{In: strings.ReplaceAll(t, "\xfe\xfe", strings.Repeat(b, n))})
				}
			}
		}
	case "utf8tpl":
		// valid multi-byte characters in every template position: code that
		// narrows a decoded rune to a byte, or trusts unicode.IsSpace / ToUpper
		// to keep lengths, meets U+0100+b for every ASCII byte b here
		cs := utf8Chars()
		for i := u.Lo; i < u.Hi && i < uint64(len(cs)); i++ {
			grows := len(strings.ToUpper(cs[i])) != len(cs[i]) || len(strings.ToLower(cs[i])) != len(cs[i])
			for _, t := range d.byteTemplates {
				emit(core.Case{In: strings.ReplaceAll(t, "\xfe\xfe", cs[i])})
				if grows {
					// characters whose upper- or lower-case form has another length, as
					// runs (fixed-size fold buffers, offsets computed before folding)
					for _, n := range []int{3, 7, 16, 33} {
						emit(core.Case{In: strings.ReplaceAll(t, "\xfe\xfe", strings.Repeat(cs[i], n))})
					}
					// a NUL between the bytes of the character (NUL stripping before or
					// after case folding gives different names)
					emit(core.Case{In: strings.ReplaceAll(t, "\xfe\xfe", cs[i][:1]+"\x00"+cs[i][1:])})
				}
			}
		}
	case "nulpad":
		// short text with runs of NUL bytes before, after and inside it (C-string
		// terminators and padding as WAF connectors hand them over)
		words := []string{"", "a", "ab", "x y", "on", "'", "1", "abc def", "--", "\"", "id", ">"}
		runs := []int{1, 2, 3, 4, 5, 6, 7, 8, 9, 10, 12, 14, 16, 20, 24, 28, 31, 32, 33, 40, 48, 63, 64, 65, 100, 255, 256, 300, 511, 512, 513, 1000}
		for i := u.Lo; i < u.Hi; i++ {
			w := words[int(i)%len(words)]
			k := runs[int(i/uint64(len(words)))%len(runs)]
			z := strings.Repeat("\x00", k)
			switch (i / uint64(len(words)*len(runs))) % 4 {
			case 0:
				emit(core.Case{In: w + z})
			case 1:
				emit(core.Case{In: z + w})
			case 2:
				emit(core.Case{In: w + z + w})
			default:
				emit(core.Case{In: z[:k/2] + w + z[k/2:]})
			}
		}
	case "attrvals", "qualified", "gluelit", "nsattrs", "encatk", "dialect", "elements", "prose", "doubled", "toktails":
		cs := d.extraCases[u.Gen]()
		for i := u.Lo; i < u.Hi && i < uint64(len(cs)); i++ {
			emit(core.Case{In: cs[i]})
		}
	case "foldalias":
		cs := d.aliasCases()
		for i := u.Lo; i < u.Hi && i < uint64(len(cs)); i++ {
			emit(core.Case{In: cs[i]})
		}
	case "giant":
		// bodies beyond 100 MiB: one plain word, and plain text with an attack at the very end
		n := giantSizes(u.Arg == "1")[u.Lo]
		pr := d.seamPairs[2]
		if u.Lo%2 == 0 {
			pr = [2]string{"", ""}
		}
		emit(core.Case{In: gen.Scale(pr[0], d.seamPads[0], pr[1], n), Desc: gen.ScaleDesc(pr[0], d.seamPads[0], pr[1], n), Kind: "seam"})
	case "seam":
		// the second feature starts exactly at, one byte before and one byte
		// after a multiple of 64 KiB behind the start of the input (block-wise
		// scanning, "last N KiB only" shortcuts, 16-bit offsets)
		ks := seamKs(u.Arg == "1")
		i := int(u.Lo)
		k := ks[i%len(ks)]
		pad := d.seamPads[(i/len(ks))%len(d.seamPads)]
		pr := d.seamPairs[i/len(ks)/len(d.seamPads)]
		for dd := -1; dd <= 1; dd++ {
			n := k<<16 + dd - len(pr[0])
			n -= n % len(pad)
			emit(core.Case{In: gen.Scale(pr[0], pad, pr[1], n), Desc: gen.ScaleDesc(pr[0], pad, pr[1], n), Kind: "seam"})
		}
	case "wrapcount":
		// a statistic kept in a narrower integer than the number of tokens,
		// comments or attributes an input can hold wraps here
		for i := u.Lo; i < u.Hi; i++ {
			n := wrapCounts[int(i)%len(wrapCounts)]
			j := int(i) / len(wrapCounts)
			un := d.countUnits[j%len(d.countUnits)]
			fr := d.countFrames[(j/len(d.countUnits))%len(d.countFrames)]
			emit(core.Case{In: gen.Scale(fr[0], un, fr[1], n*len(un)), Desc: gen.ScaleDesc(fr[0], un, fr[1], n*len(un))})
		}
	case "scale1":
		n, _ := strconv.Atoi(u.Arg)
		f := d.scaleBase[u.Lo]
		emit(core.Case{In: gen.Scale(f.prefix, f.unit, f.suffix, n), Desc: gen.ScaleDesc(f.prefix, f.unit, f.suffix, n)})
	case "scale":
		n, _ := strconv.Atoi(u.Arg)
		f := d.scale[u.Lo]
		emit(core.Case{In: gen.Scale(f.prefix, f.unit, f.suffix, n), Desc: gen.ScaleDesc(f.prefix, f.unit, f.suffix, n)})
	default:
		return false
	}
	return true
}

func min(a, b int) int {
	if a < b {
		return a
	}
	return b
}

var utf8Once sync.Once
var utf8List []string

// utf8Chars: U+0080-U+07FF (all two-byte characters), U+2000-U+20FF,
// U+3000-U+303F, U+FE00-U+FFFF (BOM, specials), U+1F500-U+1F5FF, U+10FF00-U+10FFFF.
func utf8Chars() []string {
	utf8Once.Do(func() {
		add := func(lo, hi rune) {
			for r := lo; r <= hi; r++ {
				utf8List = append(utf8List, string(r))
			}
		}
		add(0x80, 0x7ff)
		add(0x2000, 0x20ff)
		add(0x3000, 0x303f)
		add(0xfe00, 0xffff)
		add(0x1f500, 0x1f5ff)
		add(0x10ff00, 0x10ffff)
		// not valid UTF-8, but what lenient decoders accept: over-long two-byte
		// forms of every ASCII byte (C0 80 - C1 BF), three- and four-byte
		// over-long forms of the markup and SQL metacharacters, CESU surrogates
		for lead := 0xc0; lead <= 0xc1; lead++ {
			for tr := 0x80; tr <= 0xbf; tr++ {
				utf8List = append(utf8List, string([]byte{byte(lead), byte(tr)}))
			}
		}
		for _, c := range []byte("<=>'\"/ `&#;:-(\\\x00\n") {
			utf8List = append(utf8List, string([]byte{0xe0, 0x80 | c>>6, 0x80 | c&0x3f}), string([]byte{0xf0, 0x80, 0x80 | c>>6, 0x80 | c&0x3f}))
		}
		utf8List = append(utf8List, "\xed\xa0\x80", "\xed\xbf\xbf", "\xf4\x90\x80\x80", "\xf8\x88\x80\x80\x80")
	})
	return utf8List
}
