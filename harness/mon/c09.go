package mon

import (
	"fmt"
	"runtime"
	"runtime/debug"
	"sort"
	"strings"
	"sync"
	"sync/atomic"
	"syscall"
	"time"
	"unsafe"

	li "github.com/corazawaf/libinjection-go"

	"verif/harness/core"
	"verif/harness/gen"
)

// C09 — linear running time. The observed quantity is per-call thread CPU
// time (CLOCK_THREAD_CPUTIME_ID on a goroutine locked to its OS thread),
// minimum of k repetitions. Wall-clock time is never used.

func threadCPU() int64 {
	var ts syscall.Timespec
	syscall.Syscall(syscall.SYS_CLOCK_GETTIME, 3, uintptr(unsafe.Pointer(&ts)), 0)
	return ts.Sec*1e9 + ts.Nsec
}

func callDetector(det string, s string) {
	if det == "xss" {
		li.IsXSS(s)
	} else {
		li.IsSQLi(s)
	}
}

// timeMin returns the minimum thread-CPU time (ns) of k calls.
func timeMin(det, s string, k int) int64 {
	best := int64(1) << 62
	var spent int64
	for i := 0; i < k; i++ {
		t0 := threadCPU()
		callDetector(det, s)
		d := threadCPU() - t0
		if d < best {
			best = d
		}
		spent += d
		if spent > 2e9 {
			break // a call that costs seconds needs no further repetitions
		}
	}
	return best
}

type famMeasure struct {
	t      [3]int64 // at n, 4n, 16n
	sizes  [3]int
	ratio  float64
	perB   float64 // ns per byte at 16n
	capped bool    // t(n) alone blew the absolute ceiling
}

const (
	c09ViolationRatio = 64.0 // exponent >= 1.5 over a 16x range
	c09HeldRatio      = 40.0
	c09CeilNsPerByte  = 2000.0 // 2 us per input byte
	c09FloorNs        = 5e6    // ratios are judged only when t(16n) >= 5 ms
)

func measureFamily(det string, f scaleFam, n, k int) famMeasure {
	var m famMeasure
	for i, mult := range []int{1, 4, 16} {
		sz := n * mult
		s := gen.Scale(f.prefix, f.unit, f.suffix, sz)
		m.sizes[i] = len(s)
		m.t[i] = timeMin(det, s, k)
		if float64(m.t[i]) > c09CeilNsPerByte*float64(len(s)) && i < 2 {
			// already far beyond the ceiling: do not burn minutes on larger sizes
			m.capped = true
			m.perB = float64(m.t[i]) / float64(len(s))
			m.ratio = -1
			return m
		}
	}
	t0 := m.t[0]
	if t0 < 1 {
		t0 = 1
	}
	m.ratio = float64(m.t[2]) / float64(t0)
	m.perB = float64(m.t[2]) / float64(m.sizes[2])
	return m
}

func (m famMeasure) String() string {
	return fmt.Sprintf("t(%d)=%.3fms t(%d)=%.3fms t(%d)=%.3fms growth over 16x = %.1f, %.1f ns/byte at the largest size", m.sizes[0], float64(m.t[0])/1e6, m.sizes[1], float64(m.t[1])/1e6, m.sizes[2], float64(m.t[2])/1e6, m.ratio, m.perB)
}

// verdict: 2 = violation candidate, 0 = held, 1 = grey zone
func (m famMeasure) verdict() int {
	if m.capped {
		return 2
	}
	if m.perB > c09CeilNsPerByte {
		return 2
	}
	if float64(m.t[2]) < c09FloorNs {
		return 0
	}
	if m.ratio >= c09ViolationRatio {
		return 2
	}
	if m.ratio > c09HeldRatio {
		return 1
	}
	return 0
}

type c09Fam struct {
	det string
	f   scaleFam
}

func c09Catalogue() []c09Fam {
	var out []c09Fam
	for _, f := range sqlScale {
		out = append(out, c09Fam{"sqli", f})
	}
	for _, f := range htmlScale {
		out = append(out, c09Fam{"xss", f})
	}
	// cross: each detector on the other's constructs (a WAF runs both on the same body)
	for _, f := range sqlUnits {
		out = append(out, c09Fam{"xss", f})
	}
	for _, f := range htmlUnits {
		out = append(out, c09Fam{"sqli", f})
	}
	return out
}

// pair families: prefix . (a.b)^n for every ordered pair of atoms.
var c09PairAtomsSQL = []string{"'", "\"", "`", "\\", "/", "*", "-", "#", "$", "@", "[", "]", "(", ")", "{", "}", ".", ",", ";", ":", "=", "<", ">", "!", "&", "|", "+", "%", "?", " ", "\n", "\x00", "\xa0", "\x80",
	"a", "1", "e", "x", "q", "n", "u", "b", "N", "0", "_", "or", "not", "in", "select", "union", "sleep", "int", "user", "like", "1e", "0x", "--", "/*", "*/", "$a$", "q'", "u&'", "x'", "::"}
var c09PairAtomsHTML = []string{"<", ">", "/", "=", "'", "\"", "`", "!", "-", "?", "%", "[", "]", "&", "#", ";", ":", "x", "a", "0", "X", "\x00", " ", "\n", "\t", "\x80",
	"<!--", "-->", "<![CDATA[", "]]>", "<%", "%>", "<a", "on", "href", "style", "java", "&#", "&#x", "<!", "</"}
var c09PairPrefixSQL = []string{"", "'", "\"", "1 ", "/*", "$a$", "q'("}
var c09PairPrefixHTML = []string{"", "<a ", "<a b=", "<!--", "'", "<a href=", ">' src='", "<a href=\""}

func c09PairCount() (int, int) {
	return len(c09PairAtomsSQL) * len(c09PairAtomsSQL) * len(c09PairPrefixSQL), len(c09PairAtomsHTML) * len(c09PairAtomsHTML) * len(c09PairPrefixHTML)
}

func c09PairFam(i int) c09Fam {
	ns, _ := c09PairCount()
	if i < ns {
		a := len(c09PairAtomsSQL)
		p := i / (a * a)
		r := i % (a * a)
		return c09Fam{"sqli", scaleFam{c09PairPrefixSQL[p], c09PairAtomsSQL[r/a] + c09PairAtomsSQL[r%a], ""}}
	}
	i -= ns
	a := len(c09PairAtomsHTML)
	p := i / (a * a)
	r := i % (a * a)
	return c09Fam{"xss", scaleFam{c09PairPrefixHTML[p], c09PairAtomsHTML[r/a] + c09PairAtomsHTML[r%a], ""}}
}

// suffix variants: "a construct repeated, then something at the very end" —
// cost that depends on a byte far ahead (a late terminator, a late non-ASCII
// byte) only shows with a suffix.
var c09Suffixes = []string{"\xe9", "'", "\"", ">", "*/", "\n", "$a$", "`"}

func c09SuffixFams(nSuffix int) []c09Fam {
	var out []c09Fam
	for _, fm := range c09Catalogue() {
		if fm.f.suffix != "" {
			continue
		}
		for _, sx := range c09Suffixes[:nSuffix] {
			out = append(out, c09Fam{fm.det, scaleFam{fm.f.prefix, fm.f.unit, sx}})
		}
	}
	return out
}

// counter families: every repetition differs (cost that grows with the
// number of DISTINCT tokens seen cannot show on a repeated unit)
const cm = gen.CounterMark

func tailSuffix(tail string) string { return gen.TailMark + tail + gen.TailMark }

func c09ShapeFams() []c09Fam {
	var out []c09Fam
	for _, u := range []string{"w" + cm + ",", "'s" + cm + "',", "@v" + cm + ",", "w" + cm + " ", "f" + cm + "(1),", cm + ",", "a.w" + cm + ",", "`w" + cm + "`,", "1 or w" + cm + " ", "w" + cm + "=1 and ", "[w" + cm + "],", "/*" + cm + "*/1,", "$w" + cm + "$,", "w" + cm + ".", "0x" + cm + ","} {
		for _, p := range []string{"", "'", "1 union select "} {
			out = append(out, c09Fam{"sqli", scaleFam{p, u, ""}})
		}
	}
	for _, f := range []scaleFam{{"", "<t" + cm + ">", ""}, {"", "<a b" + cm + "=c>", ""}, {"<a ", "b" + cm + "=c ", ""}, {"<a href='", "&#" + cm + ";", "'>"}, {"", "<a href=x" + cm + ">", ""}, {"<a ", "on" + cm + "=x ", ""}, {"", "</t" + cm + ">", ""},
		{"x' ", "b" + cm + "=c ", ""}, {"", "<a href=j" + cm + ":>", ""}, {"", "<!--" + cm + "-->", ""}, {"<a ", "b" + cm + "='c' ", ""}} {
		out = append(out, c09Fam{"xss", f})
	}
	// two different repeated units: a construct repeated, then a long tail
	for _, u := range []string{"'a',", "\"a\",", "`a`,", "'a' ", "/*a*/", "--a\n", "#a\n", "[a],", "@a,", "$t$a$t$,", "q'(a)',", "n'a',", "x'1f',", "a.b,", "1,", "a ", "(1),", "\\'", "''"} {
		for _, t := range []string{"b", " ", "1", "\x00", "(", "\\"} {
			out = append(out, c09Fam{"sqli", scaleFam{"", u, tailSuffix(t)}})
		}
	}
	for _, u := range []string{"<b c=d>", "<b c='d'>", "<b>", "</b>", "<!--x-->", "<!x>", "<%x%>", "<![CDATA[x]]>", "a=b ", "a='b' ", "&#65;", "<b/>"} {
		for _, t := range []string{"x", " ", "/", "\x00", "-", "a=", "'"} {
			out = append(out, c09Fam{"xss", scaleFam{"", u, tailSuffix(t)}})
			out = append(out, c09Fam{"xss", scaleFam{"<a ", u, tailSuffix(t)}})
		}
	}
	// a keyword, then ONE long token, then a long foldable run: a rule that
	// re-measures the long token each time the folder comes back to it
	for _, k := range []string{"1 collate ", "1 like ", "1 not in ", "1 union select ", "select ", "1 into outfile ", "exec ", "declare @", "1;if ", "1 binary ", "user ", "1 in (", "1 between ", "cast(", "1 or @", "1 or `", "1 or '", "1 or [", "1 or 0x", "1 or $", "1 /*", "1 or q'(", "a.", "1 as ", "1 is not "} {
		for _, u := range []string{"a", "1"} {
			for _, t := range []string{"(", ",1", " a", "+1", ")", ";"} {
				out = append(out, c09Fam{"sqli", scaleFam{k, u, tailSuffix(t)}})
			}
		}
	}
	// ONE long token, then an opener or a cut-off construct as the very last bytes: a rule
	// for a short fingerprint (number + comment, word + open quote) that re-reads the token
	for _, p := range []string{"", "0x", "'", "1 ", "@", "1.", "-"} {
		for _, u := range []string{"1", "a"} {
			for _, sx := range []string{"/*", " /*", "/*x", "/*!", "--", "#", "(", "'", "\"", "`", "$$", "[", ";", ".", "e", "\\", "/*\x00", "\x00/*"} {
				out = append(out, c09Fam{"sqli", scaleFam{p, u, sx}})
			}
		}
	}
	// one long tag or attribute name, then many attributes with a listed name
	names := []string{"style", "onclick", "onerror", "x"}
	for _, a := range li.VerifBlacks() {
		names = append(names, strings.ToLower(a.Name))
	}
	for _, nm := range names {
		out = append(out, c09Fam{"xss", scaleFam{"<", "b", tailSuffix(" "+nm+"=x") + ">"}})
		out = append(out, c09Fam{"xss", scaleFam{"<a ", "b", tailSuffix(" "+nm+"=x") + ">"}})
		out = append(out, c09Fam{"xss", scaleFam{"<a " + nm + "='", "b", tailSuffix("' "+nm+"='c") + "'>"}})
	}
	// separator variants of multi-byte units: '/' , NUL, TAB, LF instead of the blank
	for _, fm := range c09Catalogue() {
		if len(fm.f.unit) < 3 || !strings.Contains(fm.f.unit, " ") || fm.f.suffix != "" {
			continue
		}
		seps := []string{"/", "\x00", "\t", "\n"}
		if fm.det == "sqli" {
			seps = []string{"\t", "\n", "\x00", "\xa0", "/**/", "+"}
		}
		for _, sp := range seps {
			out = append(out, c09Fam{fm.det, scaleFam{strings.ReplaceAll(fm.f.prefix, " ", sp), strings.ReplaceAll(fm.f.unit, " ", sp), ""}})
		}
	}
	return out
}

// fatten: every isolated letter or digit of a unit (a one-character name,
// body, value or number) grown to k characters. A cost that applies only to
// tokens longer than some threshold (the 5-byte comment prefix test, the
// 31-byte token value clip) does not show on the one-character bodies the
// catalogue is written with.
func fatten(u string, k int) string {
	isAN := func(c byte) bool { return c >= 'a' && c <= 'z' || c >= 'A' && c <= 'Z' || c >= '0' && c <= '9' }
	var b strings.Builder
	for i := 0; i < len(u); i++ {
		c := u[i]
		if isAN(c) && (i == 0 || !isAN(u[i-1])) && (i+1 == len(u) || !isAN(u[i+1])) {
			b.WriteString(strings.Repeat(string(c), k))
		} else {
			b.WriteByte(c)
		}
	}
	return b.String()
}

func c09FatFams() []c09Fam {
	var out []c09Fam
	seen := map[string]bool{}
	for _, fm := range c09Catalogue() {
		for _, k := range []int{8, 40} {
			fu := fatten(fm.f.unit, k)
			if fu == fm.f.unit {
				continue
			}
			key := fm.det + "|" + fm.f.prefix + "|" + fu + "|" + fm.f.suffix
			if seen[key] {
				continue
			}
			seen[key] = true
			out = append(out, c09Fam{fm.det, scaleFam{fm.f.prefix, fu, fm.f.suffix}})
		}
	}
	return out
}

// reduced pair alphabets for the quick tier
var c09QuickAtomsSQL = []string{"'", "\"", "`", "\\", "/", "*", "-", "#", "$", "@", "[", "(", ")", ".", ",", ";", ":", "=", "&", " ", "\n", "\x00", "\x80", "a", "1", "q", "or", "not", "--", "/*"}
var c09QuickAtomsHTML = []string{"<", ">", "/", "=", "'", "\"", "`", "!", "-", "?", "%", "]", "&", "#", ";", ":", "a", "0", "\x00", " "}
var c09QuickPrefixSQL = []string{"", "'", "\"", "1 ", "q'(", "$a$"}
var c09QuickPrefixHTML = []string{"", "<a ", "<a href=", "<!--", ">' src='", "<a href=\""}

func c09QuickPairs() []c09Fam {
	var out []c09Fam
	for _, p := range c09QuickPrefixSQL {
		for _, a := range c09QuickAtomsSQL {
			for _, b := range c09QuickAtomsSQL {
				out = append(out, c09Fam{"sqli", scaleFam{p, a + b, ""}})
			}
		}
	}
	for _, p := range c09QuickPrefixHTML {
		for _, a := range c09QuickAtomsHTML {
			for _, b := range c09QuickAtomsHTML {
				out = append(out, c09Fam{"xss", scaleFam{p, a + b, ""}})
			}
		}
	}
	return out
}

func c09Case(fm c09Fam, n int) core.Case {
	return core.Case{Kind: fm.det, A: int64(n), Desc: gen.ScaleDesc(fm.f.prefix, fm.f.unit, fm.f.suffix, n), S: fm.f.prefix + "|" + fm.f.unit + "|" + fm.f.suffix}
}

func c09ParseCase(c core.Case) (c09Fam, int, bool) {
	pre, unit, suf, _, ok := gen.ParseScaleDesc(c.Desc)
	if !ok {
		return c09Fam{}, 0, false
	}
	return c09Fam{c.Kind, scaleFam{pre, unit, suf}}, int(c.A), true
}

func c09() *core.Check {
	ch := &core.Check{
		ID: "C09",
		Rule: "scaling experiment per input family (a hand-written catalogue of every construct repeated / nested / left unterminated, behind 4 SQL prefixes, each detector also on the other's constructs, and every family again with its one-character names / bodies / numbers grown to 8 and 40 characters; a keyword followed by one long token and a long foldable run (25 x 2 x 6), one long token followed by an opener or cut-off construct as the last bytes (7 x 2 x 18), escaped quotes behind double-byte lead bytes, one long tag or attribute name followed by many attributes with each listed name; thorough: plus prefix.(a.b)^n for every ordered pair of atoms and six prefixes): thread CPU time (min of k calls) at n, 4n, 16n bytes. " +
			"Violation = growth over the 16x range >= 64 (exponent >= 1.5; linear code measures 13-24, the quadratic scanners 139-360) with t(16n) >= 5 ms, or more than 2 us per input byte, reproduced twice alone in a fresh process with k=7; growth <= 40 is held; in between the family is measured again alone after the parallel phase, and is inconclusive only if it stays in between. Non-trivial = families with a completed three-point measurement; distinct by family.",
		Assumptions: []string{
			"thread CPU time of a goroutine locked to its OS thread, minimum of k calls (GC stays enabled at GOGC=400: its assist cost is proportional to allocation, hence to input length)",
			"thresholds calibrated on this sandbox: linear families 13-24, quadratic 139-360 over 16x, also under CPU over-subscription",
			"a family nobody listed and no atom pair generates is not covered",
		},
	}
	ch.ProbeBudget = 15 * time.Minute
	ch.One = func(w *core.Worker, c core.Case) {
		// exclusive confirmation of one family (used by the fresh-process probe and by replay)
		fm, n, ok := c09ParseCase(c)
		if !ok {
			return
		}
		runtime.LockOSThread()
		defer runtime.UnlockOSThread()
		debug.SetGCPercent(400)
		w.Eval(1)
		m1 := measureFamily(fm.det, fm.f, n, 7)
		runtime.GC()
		m2 := measureFamily(fm.det, fm.f, n, 7)
		if m1.verdict() == 2 && m2.verdict() == 2 {
			w.Violate("superlinear", fmt.Sprintf("detector %s on family prefix=%q unit=%q suffix=%q\n first : %s\n second: %s", fm.det, fm.f.prefix, fm.f.unit, fm.f.suffix, m1, m2))
		} else if m1.verdict() != 0 || m2.verdict() != 0 {
			w.Count("grey_zone_on_confirmation", 1)
		}
	}
	ch.Explain = func(c core.Case) string {
		fm, n, ok := c09ParseCase(c)
		if !ok {
			return "bad case"
		}
		runtime.LockOSThread()
		defer runtime.UnlockOSThread()
		m := measureFamily(fm.det, fm.f, n, 3)
		return fmt.Sprintf("family %s prefix=%q unit=%q suffix=%q base n=%d: %s", fm.det, fm.f.prefix, fm.f.unit, fm.f.suffix, n, m)
	}
	ch.Custom = func(r *core.Run) {
		debug.SetGCPercent(400)
		n, k := 32<<10, 3
		fams := c09Catalogue()
		// families that are only screened at two sizes; suspects get the full
		// three-point measurement
		screen := append(c09SuffixFams(5), c09QuickPairs()...)
		screen = append(screen, c09ShapeFams()...)
		screen = append(screen, c09FatFams()...)
		s1, s2 := 4<<10, 32<<10
		if r.Tier == "thorough" {
			n, k = 64<<10, 5
			screen = append(c09SuffixFams(len(c09Suffixes)), c09ShapeFams()...)
			screen = append(screen, c09FatFams()...)
			a, b := c09PairCount()
			for i := 0; i < a+b; i++ {
				screen = append(screen, c09PairFam(i))
			}
			s1, s2 = 8<<10, 64<<10
		}
		pairs := len(screen)
		type res struct {
			fm c09Fam
			m  famMeasure
			n  int
		}
		var mu sync.Mutex
		var all []res
		var grey []res
		var next atomic.Int64
		var wg sync.WaitGroup
		total := len(fams) + pairs
		workers := r.Workers
		for wi := 0; wi < workers; wi++ {
			wg.Add(1)
			go func(wi int) {
				defer wg.Done()
				runtime.LockOSThread()
				defer runtime.UnlockOSThread()
				w := r.NewWorker(wi)
				for {
					i := int(next.Add(1)) - 1
					if i >= total {
						break
					}
					var fm c09Fam
					var m famMeasure
					base := n
					if i < len(fams) {
						fm = fams[i]
						m = measureFamily(fm.det, fm.f, n, k)
					} else {
						// screening at two sizes
						fm = screen[i-len(fams)]
						in1 := gen.Scale(fm.f.prefix, fm.f.unit, fm.f.suffix, s1)
						in2 := gen.Scale(fm.f.prefix, fm.f.unit, fm.f.suffix, s2)
						t1, t2 := timeMin(fm.det, in1, 2), timeMin(fm.det, in2, 2)
						w.Eval(1)
						w.Count("families_screened_two_point", 1)
						w.Nontrivial("screen|" + fm.det + "|" + fm.f.prefix + "|" + fm.f.unit + "|" + fm.f.suffix)
						if t1 < 1 {
							t1 = 1
						}
						if !(float64(t2)/float64(t1) >= 14 && t2 >= 5e5) && float64(t2) <= c09CeilNsPerByte*float64(len(in2)) {
							continue
						}
						w.Count("screened_families_suspect", 1)
						base = 16 << 10
						m = measureFamily(fm.det, fm.f, base, 3)
					}
					w.Eval(1)
					w.Nontrivial("fam|" + fm.det + "|" + fm.f.prefix + "|" + fm.f.unit + "|" + fm.f.suffix)
					mu.Lock()
					all = append(all, res{fm, m, base})
					mu.Unlock()
					switch m.verdict() {
					case 2:
						c := c09Case(fm, base)
						w.SetCur(c)
						w.Violate("superlinear", fmt.Sprintf("screening (parallel): detector %s family prefix=%q unit=%q suffix=%q: %s", fm.det, fm.f.prefix, fm.f.unit, fm.f.suffix, m))
					case 1:
						// measured while 15 other workers were measuring: decide after the
						// parallel phase, alone
						mu.Lock()
						grey = append(grey, res{fm, m, base})
						mu.Unlock()
					}
				}
				r.Merge(w)
			}(wi)
		}
		wg.Wait()
		// grey-zone families again, one at a time on an otherwise idle process
		if len(grey) > 0 {
			func() {
				runtime.LockOSThread()
				defer runtime.UnlockOSThread()
				gw := r.NewWorkerBare()
				for _, g := range grey {
					gw.Count("grey_zone_in_parallel_phase", 1)
					m := measureFamily(g.fm.det, g.fm.f, g.n, 5)
					switch m.verdict() {
					case 0:
						gw.Count("grey_zone_resolved_held_when_measured_alone", 1)
					case 2:
						c := c09Case(g.fm, g.n)
						gw.SetCur(c)
						gw.Violate("superlinear", fmt.Sprintf("measured alone after a grey-zone result in the parallel phase: detector %s family prefix=%q unit=%q suffix=%q: %s", g.fm.det, g.fm.f.prefix, g.fm.f.unit, g.fm.f.suffix, m))
					default:
						gw.Count("grey_zone", 1)
						r.Inconclusive(fmt.Sprintf("family %s prefix=%q unit=%q: growth %.1f (parallel phase) / %.1f (alone) lies between the held (40) and violation (64) thresholds", g.fm.det, g.fm.f.prefix, g.fm.f.unit, g.m.ratio, m.ratio))
					}
				}
				r.Merge(gw)
			}()
		}
		// observation summary
		var ratios []float64
		slowest := 0.0
		var slowFam string
		w := r.NewWorker(workers)
		for _, x := range all {
			if x.m.ratio > 0 && float64(x.m.t[2]) >= c09FloorNs {
				ratios = append(ratios, x.m.ratio)
			}
			if x.m.perB > slowest {
				slowest = x.m.perB
				slowFam = fmt.Sprintf("%s %q+%q", x.fm.det, x.fm.f.prefix, x.fm.f.unit)
			}
		}
		sort.Float64s(ratios)
		if len(ratios) > 0 {
			r.Note(fmt.Sprintf("growth over 16x among %d families with t(16n) >= 5 ms: min %.1f median %.1f p99 %.1f max %.1f; slowest family %.1f ns/byte (%s)",
				len(ratios), ratios[0], ratios[len(ratios)/2], ratios[len(ratios)*99/100], ratios[len(ratios)-1], slowest, slowFam))
		}
		sort.Slice(all, func(i, j int) bool { return all[i].m.ratio > all[j].m.ratio })
		for i := 0; i < len(all) && i < 6; i++ {
			x := all[i]
			w.Sample(fmt.Sprintf("%s prefix=%q unit=%q: %s", x.fm.det, x.fm.f.prefix, x.fm.f.unit, x.m))
		}
		w.Count("families_measured", uint64(len(all)))
		w.Count("families_judged_by_ratio", uint64(len(ratios)))
		r.Merge(w)
	}
	return ch
}
