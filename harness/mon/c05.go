package mon

import (
	"bufio"
	"encoding/json"
	"fmt"
	"os"
	"os/exec"
	"path/filepath"
	"regexp"
	"runtime"
	"sort"
	"strconv"
	"strings"
	"sync"
	"time"
	"unsafe"

	li "github.com/corazawaf/libinjection-go"

	"verif/harness/core"
	"verif/harness/gen"
)

// C05 — thread-safe and pure.
//
// Monitor 1 (race run): a race-instrumented build of the same harness runs G
// goroutines over a shared input set (2600 inputs; thorough 5000: single-bit twins of short inputs, two-quote payloads, attacks padded to 64 KiB-1 MiB, rare-branch inputs, every prefix of ten rich inputs, near-duplicate families differing in one byte, every table phrase of three or more words in an attack frame, every hand-written seed) with no synchronisation between
// the start barrier and the final join (results go to goroutine-private
// buffers), so the detector sees every unordered pair of accesses the library
// makes. Reports are counted in the GORACE log, never taken from exit codes.
//
// Monitor 2 (history run): call histories (permutations / interleavings of
// the input multiset) are executed in fresh child processes; an offline
// checker over the recorded logs asserts one result per (operation, input)
// across all histories, goroutines and repetitions, and equality with the
// fresh-process reference (a process whose first and only call is that input).

func c05Call(op int, s string) string {
	r, _ := c05CallRaw(op, s)
	return r
}

// c05CallRaw also hands back the fingerprint string exactly as the library
// returned it (no copy), so that the caller can look at it again later: a
// result that changes after it was returned is not a function of the input.
func c05CallRaw(op int, s string) (string, string) {
	if op == 0 {
		b, f := li.IsSQLi(s)
		return fmt.Sprintf("%v:%s", b, f), f
	}
	return fmt.Sprintf("%v", li.IsXSS(s)), ""
}

var c05OpNames = []string{"sqli", "xss"}

// c05Inputs: a small shared set reaching every lexer, fold rule family,
// all five XSS contexts, short and long inputs.
func c05Inputs(n int, seed uint64) []string {
	var out []string
	seen := map[string]bool{}
	add := func(s string) {
		if !seen[s] && len(out) < n {
			seen[s] = true
			out = append(out, s)
		}
	}
	fixed := []string{
		"1' or '1'='1", "1 union select 1,2,3 --", "-1' and 1=1 union/* foo */select load_file('/etc/passwd')--", "1; drop table t", "admin'--", "1\" or 1=1 #",
		"1 --x\n or 1=1", "1' #\n or 1=1", "x' and sleep(5) -- ", "q'[a]' or 1=1", "$t$a$t$ union select 1", "@@version union select `a`", "1 /*!50000union*/ select 1",
		"select { ``.``.id }", "1 into outfile 'x'", "1;if 1=1 waitfor delay '0:0:1'", "a collate utf8_bin b", "user() in (1)", "1 not like 2 or 1", "0x1f 0b1 1e5 1.5d",
		"foo 'bar' \"zap\"", "hello world 123", "1 union", "foo--", "sexy and 17", "aaaaaaaaaaaaaaaaaaaaaaaaaaaaaaaaaaaaaaaa", "''''''''''", "\\\\\\'\\\\'", "1 1 1 1 1 1 1 1 1 1 1 1", "((((((((((1))))))))))",
		"<script>alert(1);</script>", "x onerror=alert(1);>", "x' onerror=alert(1);>", "x\" onerror=alert(1);>", "x` onclick=x", "<a href=\"javascript:alert(1)\">", "<a href=&#106;avascript:x>",
		"<a href=&#x6a;&#X41;va\x00script:x>", "<!DOCTYPE html>", "<!--[if gte IE 4]>x<![endif]-->", "<?import x>", "<?xml x>", "<![CDATA[x]]]><script>", "<%x%%><svt>", "<p style=x>",
		"<set attributename=onclick>", "<sc\x00ript>", "<a on\x00click=x>", "myvar=onfoobar==", "onY29va2llcw==", "plain text with ' and \" and `", "<a b='c' d=\"e\" f=`g` h=i>", "</a></b></c>", "&#x1000100;&#1114112;",
		strings.Repeat("a b ", 1024), strings.Repeat("1+", 2048), strings.Repeat("<a b=c ", 600), strings.Repeat("'a' ", 512) + "or 1=1", strings.Repeat("/", 4096), strings.Repeat("<!-- - ", 512),
		strings.Repeat("select ", 256), strings.Repeat("x' ", 300) + "onclick=1", "",
		// rare-branch inputs: the sp_password rule, whitelist exceptions, evil tokens
		"x'--sp_password", "foo--sp_password", "foo--", "1 --sp_password", "1 /*sp_password*/", "x' or 1=1 -- sp_password", "1 union", "1 union --", "1c", "1/*", "1 /*", " 1--", "sexy and 17<18",
		"42", "hello", "see above -- thanks", "1 /* note */", "it''s done /* note", "say \"\"hi\"\" --", "{`", "1 /*!0 or*/ 1", "1 /* /* */ */",
	}
	for _, s := range fixed {
		add(s)
	}
	// every phrase of three or more words of the live table: the last merge
	// steps of the folder go through intermediate keys, and an index over them
	// that is built in map iteration order differs from process to process
	var phrases []string
	for k, v := range keywords() {
		if v != 'F' && strings.Count(k, " ") >= 2 {
			phrases = append(phrases, strings.ToLower(k))
		}
	}
	sort.Strings(phrases)
	for _, p := range phrases {
		add("1 " + p + " union select 1")
	}
	// markup and SQL whose keyword test upper-cases a short piece of the
	// input: lower-case letters at the start of a comment / declaration /
	// word, a NUL further on (a copy-free path that writes into the input)
	for _, x := range []string{"<!--important note\x00 -->", "<!-- some comment text \x00-->", "<?import abc\x00def ghi>", "<!entity abcdefgh\x00>", "<!doctype html\x00 public>", "<?xml version\x00>", "<!--[if lowercase\x00]>",
		"<a onclick\x00=x hrefabcdef\x00=y>", "<scriptlowercase\x00 x>", "x' onmouseover\x00\x00=alert(1) ", "<a href=\"javascript\x00:alert(1)\">", "<a style\x00=x>", "select lower\x00case from t -- sp_password\x00", "union\x00 select\x00 1", "1 /*comment\x00 lowercase*/ union select 1"} {
		add(x)
	}
	// path, bracket and inline-image syntax next to inputs whose answer hinges
	// on the same lexer tables
	for _, x := range []string{"$.a[0]", "$.items[0].name", "select $.a[1] from t", "1 union select[password]from[users]", "1;drop table[users]", "' union select[a],[b] from[t]--", "a[0]", "[a]", "x[1].y[2]",
		"<img src=\"data:image/png;base64,iVBORw0KGgo\">", "<a href=\"data:text/html;base64,PHNj\">", "<img src=\"data:image/svg+xml;utf8,x\">", "<form action=data:x>", "<a onmspointerdown=x>", "<body onoffline=x>", "<a onmozfullscreenchange=x>", "<a ononline=x>", "<a onopen=x>"} {
		add(x)
	}
	// inputs that are positive in more than one reading, with different
	// fingerprints, short and beyond the sizes at which work might be split
	// up: the answer must be the first reading's, every time
	for _, a := range []string{"1 or 1=1 -- ' or 1=1 -- ", "a' or 1=1 -- \" union select 1,2 -- ", "x)--'--", "x union#'--", "1 or 1=1 -- \" union select 1 -- ' or 'a'='a"} {
		add(a)
		for _, n := range []int{70000, 170000, 300000} {
			add(a + strings.Repeat(" a", n/2))
			add(a + strings.Repeat("b", n))
		}
	}
	// inputs that end inside a construct leave scanner state "dirty"; inputs
	// whose verdict hinges on one flag are sensitive to it. Every prefix of a
	// few rich inputs supplies both kinds.
	for _, rich := range []string{
		"</a x='y'><script>", "<a href=\"x\">t</a x", "</script ", "<iframe>", "<b/><svt>", "x' onclick=a \"b\" `c`>",
		"<!-- x --><![CDATA[y]]><%z%><embed>", "1' or \"a\"=`b` --x\n#y", "1 /*!x*/ union/**/select @@a,'b'", "a' into outfile \"b\" #",
	} {
		for i := 1; i <= len(rich); i++ {
			add(rich[:i])
		}
	}
	// near-duplicate families: same length, one byte different at every
	// position. A result cache keyed too coarsely (length + sampled hash, a
	// prefix, ...) hands one member another member's answer.
	for _, base := range []string{
		"<a href=\"javascript:alert(1)\" title=\"abcdefgh\">",
		"1' union select 1,2,3 from information_schema.tables -- ",
		"<img src=x onerror=alert(document.cookie) class=\"thumbnail large\" alt=\"picture of a cat on a sofa\">",
	} {
		for i := 0; i < len(base); i++ {
			b := []byte(base)
			if b[i] == 'x' {
				b[i] = 'y'
			} else {
				b[i] = 'x'
			}
			add(string(b))
		}
		add(base)
	}
	// single-bit twins: every byte of a few short inputs with one bit flipped
	// (bit 5 = ASCII case bit, bit 7 = what a 7-bit mask drops, then the rest).
	// A cache or table whose key comparison is lossy in one bit gives a twin
	// the other twin's answer, in whichever order they are first asked.
	for bi, base := range []string{"1 and load_file(1)>0", "select pg_sleep(5)--", "<a onclick=alert(1)>", "x' or utl_inaddr.get_host_name(1)='", "<svg/onload=x href=javascript:y>"} {
		bits := []uint{5, 7}
		if bi < 2 {
			bits = []uint{0, 1, 2, 3, 4, 5, 6, 7}
		}
		add(base)
		for i := 0; i < len(base); i++ {
			for _, bit := range bits {
				b := []byte(base)
				b[i] ^= 1 << bit
				add(string(b))
			}
		}
	}
	// both quote kinds in one input, each quoted reading firing on its own
	// tail: the answer must not depend on the order in which the readings
	// happen to be tried
	{
		tails := []string{"or 1=1 -- ", "union select 1,2 -- ", "or 'a'='a", "or \"a\"=\"a", "; drop table t -- ", "and sleep(5) #", "or 1=1 /*", "|| 1 -- "}
		for ti, a := range tails {
			for tj, b := range tails {
				if (ti+tj)%3 != 0 && ti != tj {
					continue
				}
				add("x' " + a + " \" " + b)
				add("x\" " + a + " ' " + b)
			}
		}
	}
	// fingerprints that differ only in the letter case of one class character
	// (t = SQL type, T = T-SQL keyword): an intern table or cache keyed by the
	// upper-cased fingerprint hands one the other's spelling
	for _, fr := range []string{"1;%s;", "1;%s 1", "select %s", "1 %s", "%s", "1;%s;%s", "a %s b"} {
		for _, wd := range []string{"int", "varchar", "date", "binary", "shutdown", "declare", "drop", "exec", "insert", "create"} {
			add(strings.ReplaceAll(fr, "%s", wd))
		}
	}
	// URL attribute values longer than 64 KiB with the scheme word at the very end
	for _, sz := range []int{65536, 70000, 131072} {
		add("<a href=\"" + strings.Repeat("x", sz) + "javascript:y\">")
		add("' src='" + strings.Repeat("ab/", sz/3) + "java")
	}
	// large inputs (a size-dependent fast path, a parallel split, a pooled
	// buffer that only large inputs outgrow): attacks firing in several
	// contexts, padded to 64 KiB / 64 KiB + 1 (thorough: also 256 KiB / 1 MiB)
	for bi, base := range []string{"' <a href=javascript:alert(1) > \" onclick=x ` onerror=y", "1' or 1=1 -- \" union select 1,2 -- ", "<script>alert(1)</script>' onload=x", "1 union select 1,2,3 --' or '1'='1"} {
		sizes := []int{65536, 65537}
		if n >= 5000 {
			sizes = []int{65536, 65537, 262144, 1 << 20}
		}
		for si, sz := range sizes {
			pad := []string{"abcdefghijklmnopqrstuvwxyz0123456789", "lorem ipsum dolor ", "a,b,"}[(bi+si)%3]
			k := sz - len(base)
			fill := strings.Repeat(pad, k/len(pad)+1)[:k]
			if (bi+si)%2 == 0 {
				add(fill + base)
			} else {
				add(base + fill)
			}
		}
	}
	r := core.NewRng(seed, "c05inputs")
	cs, ch := gen.CorpusSQL(), gen.CorpusHTML()
	// every hand-written seed: one input or more per lexical construct and rule
	for k := 0; len(out) < n && k < len(gen.SQLSeeds)+len(gen.HTMLSeeds); k++ {
		if k%2 == 0 && k/2 < len(gen.SQLSeeds) {
			add(gen.SQLSeeds[k/2])
		} else if k/2 < len(gen.HTMLSeeds) {
			add(gen.HTMLSeeds[k/2])
		}
	}
	for len(out) < n {
		switch r.Intn(4) {
		case 0:
			add(cs[r.Intn(len(cs))])
		case 1:
			add(ch[r.Intn(len(ch))])
		case 2:
			add(gen.RandSeq(r, gen.SQLExt, 10, sqlDomain.seps))
		default:
			add(gen.RandSeq(r, gen.HTMLFull, 10, htmlDomain.seps))
		}
	}
	return out
}

type c05Cfg struct {
	Mode    string   `json:"mode"` // race | hist
	G       int      `json:"g"`
	P       int      `json:"p"`
	N       int      `json:"n"` // calls per goroutine
	Seed    uint64   `json:"seed"`
	Inputs  []string `json:"inputs"` // Go-quoted
	Out     string   `json:"out"`
	Gosched int      `json:"gosched"`
}

type c05Event struct {
	G  int    `json:"g"`
	I  int    `json:"i"` // input index
	Op int    `json:"op"`
	R  string `json:"r"`
	T0 int64  `json:"t0"`
	T1 int64  `json:"t1"`
}

type c05Out struct {
	// digests of the shared tables before the first and after the last call
	TablesBefore uint64     `json:"tables_before"`
	TablesAfter  uint64     `json:"tables_after"`
	Calls        int        `json:"calls"`
	Reused       int        `json:"reused"`  // asks made through a copy that landed on a collected input's block
	Results      [][]string `json:"results"` // [op][input] -> result ("" = not asked; "!" + ... = inconsistent)
	Bad          []string   `json:"bad"`
	Events       []c05Event `json:"events,omitempty"`
}

// C05Work is the child side (both in the race build and the plain build).
func C05Work(cfgPath string) int {
	data, err := os.ReadFile(cfgPath)
	if err != nil {
		return 2
	}
	var cfg c05Cfg
	if json.Unmarshal(data, &cfg) != nil {
		return 2
	}
	inputs := make([]string, len(cfg.Inputs))
	for i, q := range cfg.Inputs {
		inputs[i], _ = strconv.Unquote(q)
	}
	if cfg.Mode == "burst" {
		return c05Burst(&cfg)
	}
	// digests of the inputs before any call: the library is handed Go strings
	// and must leave their bytes alone
	inDigest := make([]uint64, len(inputs))
	for i, in := range inputs {
		inDigest[i] = core.Hash64(in)
	}
	runtime.GOMAXPROCS(cfg.P)
	type heldFp struct {
		raw, copy string
		i         int
	}
	type priv struct {
		held   [64]heldFp
		res    [2][]string
		bad    []string
		events []c05Event
		calls  int
		reused int
	}
	privs := make([]*priv, cfg.G)
	tablesBefore, _ := tablesDigest()
	start := make(chan struct{})
	var wg sync.WaitGroup
	t00 := time.Now()
	for g := 0; g < cfg.G; g++ {
		wg.Add(1)
		go func(g int) {
			defer wg.Done()
			p := &priv{}
			p.res[0] = make([]string, len(inputs))
			p.res[1] = make([]string, len(inputs))
			r := core.NewRng(cfg.Seed, "c05work", strconv.Itoa(g))
			if cfg.Mode == "hist" {
				p.events = make([]c05Event, 0, cfg.N)
			}
			// equal-length partners for the collected-and-reallocated probe
			var sameLen map[int][]int
			var eligible []int
			if cfg.G == 1 {
				sameLen = map[int][]int{}
				for i, in := range inputs {
					if len(in) >= 32 && len(in) <= 4096 {
						sameLen[len(in)] = append(sameLen[len(in)], i)
					}
				}
				for i, in := range inputs {
					if len(sameLen[len(in)]) > 1 {
						eligible = append(eligible, i)
					}
				}
			}
			<-start
			// from here to the end of the loop: no synchronisation of any kind
			for k := 0; k < cfg.N; k++ {
				if sameLen != nil && k%1024 == 1023 {
					// the same probe with a synthetic pair whose answers differ: an
					// attack and a harmless text of exactly the same length
					L := []int{96, 100, 128, 200, 256, 1000, 4000}[(k/1024)%7]
					op := (k / 1024 / 7) % 2
					att, ben := "1 union select 1,2,3 -- ", "hello world, nothing to see here "
					if op == 1 {
						att, ben = "<script>alert(1)</script> ", "plain text without markup "
					}
					mk := func(head string, fill byte) string {
						b := make([]byte, L)
						copy(b, head)
						for j := len(head); j < L; j++ {
							b[j] = fill
						}
						return string(b)
					}
					first, second := mk(ben, 'y'), mk(att, 'x')
					if (k/1024)%2 == 1 {
						first, second = second, first
					}
					want := c05Call(op, second+"")
					freed := c05AskAndDrop(op, []byte(first))
					runtime.GC()
					runtime.GC()
					// allocate copies of the second text until one lands on the block the
					// first one occupied (the addresses are compared only to arrange the
					// situation; the answer is judged as always), and ask that one
					got, hit := "", false
					sb := []byte(second)
					var hold []string
					for tries := 0; tries < 60000; tries++ {
						cp2 := string(sb)
						if uintptr(unsafe.Pointer(unsafe.StringData(cp2))) == freed {
							got, hit = c05Call(op, cp2), true
							break
						}
						hold = append(hold, cp2)
					}
					runtime.KeepAlive(hold)
					p.calls += 2
					if hit {
						p.reused++
					}
					if hit && got != want && len(p.bad) < 8 {
						p.bad = append(p.bad, fmt.Sprintf("goroutine %d: %s(%s) returned %q for a freshly allocated copy asked right after an equally long, already collected input with another answer; asked through a long-lived copy it returns %q", g, c05OpNames[op], strconv.Quote(trunc(second, 60)), got, want))
					}
				}
				if len(eligible) > 0 && k%96 == 95 {
					// sequential histories only: a private copy of one input is asked,
					// dropped and collected; a private copy of ANOTHER input of the same
					// length is allocated right away (it tends to land on the freed
					// block) and asked. Its answer must be its own.
					a := eligible[r.Intn(len(eligible))]
					if grp := sameLen[len(inputs[a])]; len(grp) > 1 {
						b := grp[r.Intn(len(grp))]
						if b != a {
							op := r.Intn(2)
							cp := string(append([]byte(nil), inputs[a]...))
							c05Call(op, cp)
							cp = ""
							runtime.GC()
							cp2 := string(append([]byte(nil), inputs[b]...))
							got := c05Call(op, cp2)
							p.calls += 2
							if want := c05Call(op, inputs[b]); got != want && len(p.bad) < 8 {
								p.bad = append(p.bad, fmt.Sprintf("goroutine %d: %s(%s) returned %q for a freshly allocated copy asked right after an equally long, already collected input; the same process answers %q for the long-lived copy", g, c05OpNames[op], strconv.Quote(trunc(inputs[b], 80)), got, want))
							}
						}
					}
				}
				i := r.Intn(len(inputs))
				if len(inputs[i]) > 32<<10 && r.Intn(8) != 0 {
					// inputs of 64 KiB-1 MiB are drawn eight times less often
					// (still dozens of asks each per run)
					i = r.Intn(len(inputs))
				}
				op := r.Intn(2)
				var t0, t1 int64
				if cfg.Mode == "hist" {
					t0 = int64(time.Since(t00))
				}
				in := inputs[i]
				if len(in) > 0 && len(in) <= 4096 && r.Intn(2) == 0 {
					// a short-lived private copy: after a collection the same address
					// holds another input of the same length (a memo keyed by the
					// string's address)
					in = string(append([]byte(nil), in...))
				}
				res, raw := c05CallRaw(op, in)
				if op == 0 && raw != "" {
					// look again at a fingerprint returned a while ago
					slot := k & 63
					if h := p.held[slot]; h.raw != "" && h.raw != h.copy && len(p.bad) < 8 {
						p.bad = append(p.bad, fmt.Sprintf("goroutine %d: the fingerprint string returned by IsSQLi(%s) read %q when returned and reads %q after later calls", g, strconv.Quote(trunc(inputs[h.i], 80)), h.copy, h.raw))
					}
					p.held[slot] = heldFp{raw: raw, copy: string(append([]byte(nil), raw...)), i: i}
				}
				if cfg.Mode == "hist" {
					t1 = int64(time.Since(t00))
					p.events = append(p.events, c05Event{G: g, I: i, Op: op, R: res, T0: t0, T1: t1})
				}
				p.calls++
				if r.Intn(4) == 0 {
					// the same question again at once (a one-entry memo is keyed by
					// this input right now; another goroutine may be half-way through
					// storing its own answer)
					if again := c05Call(op, inputs[i]); again != res && len(p.bad) < 8 {
						p.bad = append(p.bad, fmt.Sprintf("goroutine %d: %s(%s) returned %q and, asked again at once, %q", g, c05OpNames[op], strconv.Quote(trunc(inputs[i], 80)), res, again))
					}
					p.calls++
				}
				if old := p.res[op][i]; old == "" {
					p.res[op][i] = res
				} else if old != res && len(p.bad) < 8 {
					p.bad = append(p.bad, fmt.Sprintf("goroutine %d: %s(%s) returned %q earlier and %q at call %d", g, c05OpNames[op], strconv.Quote(trunc(inputs[i], 80)), old, res, k))
				}
				if cfg.Gosched > 0 && r.Intn(cfg.Gosched) == 0 {
					runtime.Gosched()
				}
			}
			for _, h := range p.held {
				if h.raw != h.copy && len(p.bad) < 8 {
					p.bad = append(p.bad, fmt.Sprintf("goroutine %d: the fingerprint string returned by IsSQLi(%s) read %q when returned and reads %q after later calls", g, strconv.Quote(trunc(inputs[h.i], 80)), h.copy, h.raw))
				}
			}
			privs[g] = p
		}(g)
	}
	close(start)
	wg.Wait()
	// after the join: merge the private buffers
	var out c05Out
	out.TablesBefore = tablesBefore
	out.TablesAfter, _ = tablesDigest()
	out.Results = [][]string{make([]string, len(inputs)), make([]string, len(inputs))}
	for i, in := range inputs {
		if core.Hash64(in) != inDigest[i] && len(out.Bad) < 32 {
			orig, _ := strconv.Unquote(cfg.Inputs[i])
			out.Bad = append(out.Bad, fmt.Sprintf("the bytes of input %d were changed by the library: handed over as %s, now %s", i, strconv.Quote(trunc(orig, 80)), strconv.Quote(trunc(in, 80))))
		}
	}
	for g, p := range privs {
		out.Calls += p.calls
		out.Reused += p.reused
		out.Bad = append(out.Bad, p.bad...)
		for op := 0; op < 2; op++ {
			for i, r := range p.res[op] {
				if r == "" {
					continue
				}
				if cur := out.Results[op][i]; cur == "" {
					out.Results[op][i] = r
				} else if cur != r && len(out.Bad) < 32 {
					out.Bad = append(out.Bad, fmt.Sprintf("%s(%s): %q in one goroutine, %q in goroutine %d", c05OpNames[op], strconv.Quote(trunc(inputs[i], 80)), cur, r, g))
				}
			}
		}
		out.Events = append(out.Events, p.events...)
	}
	b, _ := json.Marshal(&out)
	if os.WriteFile(cfg.Out, b, 0o644) != nil {
		return 2
	}
	return 0
}

// c05Burst: load. A few very large inputs (each call takes milliseconds) are
// first answered sequentially, then by cfg.G goroutines released together,
// three rounds each. An answer under load must equal the sequential answer
// (load shedding, admission control or a time budget that changes the verdict
// instead of the latency shows here).
func c05Burst(cfg *c05Cfg) int {
	runtime.GOMAXPROCS(cfg.P)
	big := func(n int, unit string) string { return strings.Repeat(unit, n/len(unit)+1)[:n] }
	type item struct {
		op int
		in string
	}
	items := []item{
		// SQL: one very long word each (the word lexer walks all of it, in every reading)
		{0, big(48<<20, "a") + " 7 apples"},
		{0, big(40<<20, "b") + " hello 42"},
		{0, big(32<<20, "x") + "' or 1=1 -- "},
		{0, "1 union select " + big(24<<20, "c") + ",2 -- "},
		{1, big(1<<20, "a") + "\" onmouseover=\"alert(1)"},
		{1, big(4<<20, "lorem ipsum ") + "dolor"},
		{1, big(800<<10, "a") + "' onerror='alert(1)"},
		{1, big(3<<20, "x y ") + "<script>alert(1)</script>"},
	}
	want := make([]string, len(items))
	for i, it := range items {
		want[i] = c05Call(it.op, it.in)
	}
	var out c05Out
	out.TablesBefore, _ = tablesDigest()
	var mu sync.Mutex
	start := make(chan struct{})
	var wg sync.WaitGroup
	for g := 0; g < cfg.G; g++ {
		wg.Add(1)
		go func(g int) {
			defer wg.Done()
			<-start
			for round := 0; round < 3; round++ {
				i := (g + round*7) % len(items)
				if cfg.N == 1 {
					i = (g + round) % 4 // this burst: the four SQL inputs only
				}
				got := c05Call(items[i].op, items[i].in)
				mu.Lock()
				out.Calls++
				if got != want[i] && len(out.Bad) < 16 {
					out.Bad = append(out.Bad, fmt.Sprintf("under load (%d goroutines released together on inputs of 0.8-48 MiB) %s(%d bytes, %q...%q) returned %q; the same process answered %q sequentially just before", cfg.G, c05OpNames[items[i].op], len(items[i].in), trunc(items[i].in, 12), items[i].in[len(items[i].in)-24:], got, want[i]))
				}
				mu.Unlock()
			}
		}(g)
	}
	close(start)
	wg.Wait()
	out.TablesAfter, _ = tablesDigest()
	out.Results = [][]string{{}, {}}
	b, _ := json.Marshal(&out)
	if os.WriteFile(cfg.Out, b, 0o644) != nil {
		return 2
	}
	return 0
}

// c05AskAndDrop asks about a private heap copy and returns the address it
// occupied; the copy is unreachable when the function returns.
//
//go:noinline
func c05AskAndDrop(op int, b []byte) uintptr {
	s := string(b)
	c05Call(op, s)
	return uintptr(unsafe.Pointer(unsafe.StringData(s)))
}

// C05OneShot: a process whose first and only library call is this input.
func C05OneShot(op string, inputFile string) int {
	b, err := os.ReadFile(inputFile)
	if err != nil {
		return 2
	}
	s, err := strconv.Unquote(strings.TrimSpace(string(b)))
	if err != nil {
		return 2
	}
	o := 0
	if op == "xss" {
		o = 1
	}
	fmt.Print(c05Call(o, s))
	return 0
}

var raceFrameRe = regexp.MustCompile(`(?m)^\s+github\.com/corazawaf/libinjection-go\.([^\s(]+(?:\([^)]*\))?[^\s(]*)\(`)

// raceSignature: the pair of outermost library frames of the two stacks of a
// report block (line numbers stripped).
func raceSignature(block string) string {
	parts := regexp.MustCompile(`(?m)^(?:Previous )?(?:[Rr]ead|[Ww]rite|atomic [a-z]+) (?:at|by)`).Split(block, -1)
	var sigs []string
	for _, p := range parts[1:] {
		fr := raceFrameRe.FindAllStringSubmatch(p, -1)
		if len(fr) == 0 {
			sigs = append(sigs, "?")
			continue
		}
		// innermost library frame is first; outermost is last before harness frames
		sigs = append(sigs, fr[0][1]+"<-"+fr[len(fr)-1][1])
		if len(sigs) == 2 {
			break
		}
	}
	sort.Strings(sigs)
	return strings.Join(sigs, " || ")
}

func c05() *core.Check {
	ch := &core.Check{
		ID: "C05",
		Rule: "race run: a race-instrumented build runs G goroutines (4/16/64) x GOMAXPROCS (2/4/16) hammering a shared input set (2600 inputs; thorough 5000: single-bit twins of short inputs, two-quote payloads, attacks padded to 64 KiB-1 MiB, rare-branch inputs, every prefix of ten rich inputs, near-duplicate families differing in one byte, every hand-written seed) with IsSQLi and IsXSS mixed, random Gosched, and no synchronisation between start barrier and final join; three load bursts (48, 160 and - on the SQL inputs only - 256 goroutines released together on eight inputs of 0.8-48 MiB, answers compared with the same process's sequential answers); report blocks are counted in the GORACE log and de-duplicated by outermost library frames. " +
			"history run: permuted / interleaved call histories in fresh child processes with per-goroutine event logs; offline checker: one result per (operation,input) across all histories, goroutines and repetitions, equal to the fresh-process reference (process whose only call is that input); the bytes of every input are digested before the first and after the last call of a history and must be unchanged; the shared tables are digested before and after every history / race run (quiescent points) and must be unchanged. " +
			"Non-trivial = distinct (operation,input) pairs asked under at least two different predecessors or concurrently; evaluations = library calls made.",
		Assumptions: []string{
			"the race detector is happens-before based: it reports unordered conflicting accesses it observes, on the paths the input set reaches",
			"the static audit of package-level writes mentioned in the property's quantifier is a different technique and is not done here",
		},
	}
	ch.One = func(w *core.Worker, c core.Case) {
		// replay of a history dependence: predecessor (S) then input, compared
		// with the recorded fresh-process result (Kind = op|expected).
		p := strings.SplitN(c.Kind, "|", 2)
		if len(p) != 2 {
			return
		}
		op := 0
		if p[0] == "xss" {
			op = 1
		}
		w.Eval(1)
		c05Call(op, c.S)
		if got := c05Call(op, c.In); got != p[1] {
			w.Violate("history-dependence", fmt.Sprintf("%s(input) after %s(%s) returned %q; a fresh process returns %q", p[0], p[0], strconv.Quote(trunc(c.S, 100)), got, p[1]))
		}
	}
	ch.Custom = func(r *core.Run) { c05Run(r) }
	return ch
}

func c05Run(r *core.Run) {
	work := os.Getenv("VERIF_WORK")
	self, _ := os.Executable()
	raceBin := os.Getenv("VERIF_RACE_BIN")
	w := r.NewWorker(0)
	defer r.Merge(w)
	if raceBin == "" {
		if _, err := os.Stat(filepath.Join(filepath.Dir(self), "vh-race")); err == nil {
			raceBin = filepath.Join(filepath.Dir(self), "vh-race")
		}
	}
	if raceBin == "" {
		panic("C05: race-instrumented binary missing (VERIF_RACE_BIN)")
	}
	thorough := r.Tier == "thorough"
	nInputs := 2600
	if thorough {
		nInputs = 5000
	}
	inputs := c05Inputs(nInputs, r.Seed)
	quoted := make([]string, len(inputs))
	for i, s := range inputs {
		quoted[i] = strconv.Quote(s)
	}
	runChild := func(bin string, cfg c05Cfg, tag string, env []string) (*c05Out, string, error) {
		cfg.Inputs = quoted
		cfg.Out = filepath.Join(work, "c05-"+tag+".out.json")
		cp := filepath.Join(work, "c05-"+tag+".cfg.json")
		b, _ := json.Marshal(&cfg)
		os.WriteFile(cp, b, 0o644)
		lf := filepath.Join(work, "c05-"+tag+".log")
		lg, _ := os.Create(lf)
		cmd := exec.Command(bin, "c05work", cp)
		cmd.Stdout, cmd.Stderr = lg, lg
		cmd.Env = append(os.Environ(), env...)
		err := cmd.Run()
		lg.Close()
		logb, _ := os.ReadFile(lf)
		if len(logb) > 4000 {
			logb = logb[:4000]
		}
		var out c05Out
		ob, e2 := os.ReadFile(cfg.Out)
		os.Remove(cfg.Out)
		if e2 != nil || json.Unmarshal(ob, &out) != nil {
			return nil, string(logb), fmt.Errorf("child failed: %v", err)
		}
		return &out, string(logb), nil
	}

	// reference results: fresh process per (op,input) for a sample, plus the
	// first sequential history as the provisional reference for the rest
	ref := [][]string{make([]string, len(inputs)), make([]string, len(inputs))}
	nFresh := 64
	if thorough {
		nFresh = 512
	}
	fr := core.NewRng(r.Seed, "c05fresh")
	for k := 0; k < nFresh; k++ {
		i := k % len(inputs)
		if k >= len(inputs) {
			i = fr.Intn(len(inputs))
		}
		op := k / len(inputs) % 2
		if k < 2*len(inputs) && k >= len(inputs) {
			op = 1
		}
		if k < len(inputs) {
			op = int(core.Hash64(inputs[i]) & 1)
		}
		if ref[op][i] != "" {
			continue
		}
		f := filepath.Join(work, "c05-oneshot.txt")
		os.WriteFile(f, []byte(quoted[i]), 0o644)
		outb, err := exec.Command(self, "c05oneshot", c05OpNames[op], f).Output()
		if err != nil {
			r.Inconclusive(fmt.Sprintf("fresh-process reference for input %d failed: %v", i, err))
			continue
		}
		ref[op][i] = string(outb)
		w.Count("fresh_process_references", 1)
	}

	confirmed := func(kind string, c core.Case, detail string) {
		w.SetCur(c)
		w.ViolateConfirmed(kind, detail)
	}

	// --- history runs (plain build) -------------------------------------
	hist := 8
	reps := 8
	if thorough {
		hist = 64
		reps = 12
	}
	type seenRes struct {
		res  string
		hist int
		pred int
	}
	first := [2]map[int]seenRes{{}, {}}
	predSet := map[uint64]bool{}
	overlapSame := 0
	maxInflight := 0
	totalCalls := 0
	for h := 0; h < hist; h++ {
		cfg := c05Cfg{Mode: "hist", Seed: r.Seed*1000 + uint64(h), P: 16, Gosched: 16}
		switch h % 4 {
		case 0: // strictly sequential history
			cfg.G, cfg.N, cfg.P = 1, len(inputs)*reps, 1
		case 1:
			cfg.G, cfg.N = 4, len(inputs)*reps/4
		case 2:
			cfg.G, cfg.N = 16, len(inputs)*reps/16
		default:
			cfg.G, cfg.N, cfg.P = 64, len(inputs)*reps/64, 4
		}
		out, lg, err := runChild(self, cfg, fmt.Sprintf("hist%d", h), nil)
		if err != nil {
			confirmed("fatal-under-concurrency", core.Case{Kind: "hist", A: int64(h)}, "history child died:\n"+lg)
			continue
		}
		totalCalls += out.Calls
		w.Count("asks_on_reused_memory_blocks", uint64(out.Reused))
		if out.TablesBefore != out.TablesAfter {
			confirmed("shared-table-mutated", core.Case{Kind: "hist", A: int64(h)}, fmt.Sprintf("the digest of the shared tables (keywords, black lists, hex map) changed during history %d (%d calls)", h, out.Calls))
		}
		w.Count("table_digest_comparisons", 1)
		for _, b := range out.Bad {
			confirmed("history-dependence", core.Case{Kind: "within-process", A: int64(h)}, b)
		}
		// per-goroutine order gives predecessors; global times give overlap
		sort.Slice(out.Events, func(a, b int) bool {
			if out.Events[a].G != out.Events[b].G {
				return out.Events[a].G < out.Events[b].G
			}
			return out.Events[a].T0 < out.Events[b].T0
		})
		prev := -1
		prevG := -1
		for _, e := range out.Events {
			if e.G != prevG {
				prev, prevG = -1, e.G
			}
			key := uint64(e.Op)<<60 | uint64(prev+1)<<30 | uint64(e.I)
			predSet[key] = true
			if s, ok := first[e.Op][e.I]; !ok {
				first[e.Op][e.I] = seenRes{e.R, h, prev}
			} else if s.res != e.R {
				pi := ""
				if prev >= 0 {
					pi = inputs[prev]
				}
				confirmed("history-dependence", core.Case{In: inputs[e.I], S: pi, Kind: c05OpNames[e.Op] + "|" + s.res},
					fmt.Sprintf("%s(input) returned %q in history %d and %q in history %d (goroutine %d, predecessor %s)", c05OpNames[e.Op], s.res, s.hist, e.R, h, e.G, strconv.Quote(trunc(pi, 80))))
			}
			if want := ref[e.Op][e.I]; want != "" && want != e.R {
				pi := ""
				if prev >= 0 {
					pi = inputs[prev]
				}
				confirmed("history-dependence", core.Case{In: inputs[e.I], S: pi, Kind: c05OpNames[e.Op] + "|" + want},
					fmt.Sprintf("%s(input) returned %q in history %d (goroutine %d, predecessor %s); a process whose only call is this input returns %q", c05OpNames[e.Op], e.R, h, e.G, strconv.Quote(trunc(pi, 80)), want))
			}
			prev = e.I
		}
		// interleaving statistics
		if cfg.G > 1 {
			type pt struct {
				t    int64
				d    int
				i    int
				same int
			}
			pts := make([]pt, 0, 2*len(out.Events))
			for _, e := range out.Events {
				pts = append(pts, pt{e.T0, 1, e.I, 0}, pt{e.T1, -1, e.I, 0})
			}
			sort.Slice(pts, func(a, b int) bool { return pts[a].t < pts[b].t })
			in := 0
			active := map[int]int{}
			for _, p := range pts {
				if p.d > 0 {
					if active[p.i] > 0 {
						overlapSame++
					}
					active[p.i]++
				} else {
					active[p.i]--
				}
				in += p.d
				if in > maxInflight {
					maxInflight = in
				}
			}
		}
		w.Count("histories", 1)
	}
	w.Eval(totalCalls)
	w.Count("history_calls", uint64(totalCalls))
	w.Count("distinct_predecessor_pairs", uint64(len(predSet)))
	w.Count("max_calls_in_flight", uint64(maxInflight))
	w.Count("overlapping_calls_on_same_input", uint64(overlapSame))
	for op := 0; op < 2; op++ {
		for i := range first[op] {
			w.Nontrivial(fmt.Sprintf("%d|%s", op, inputs[i]))
		}
	}

	// --- load bursts (plain build) ----------------------------------------
	for bi, g := range []int{48, 160, 256} {
		cfg := c05Cfg{Mode: "burst", G: g, P: 16, Seed: r.Seed}
		if g == 256 {
			cfg.N = 1 // all 256 on the SQL inputs (each call walks 24-48 MiB)
		}
		saved := quoted
		quoted = nil // the burst child builds its own (very large) inputs
		out, lg, err := runChild(self, cfg, fmt.Sprintf("burst%d", bi), nil)
		quoted = saved
		if err != nil {
			confirmed("fatal-under-concurrency", core.Case{Kind: "burst", A: int64(g)}, "load-burst child died:\n"+lg)
			continue
		}
		for _, b := range out.Bad {
			confirmed("history-dependence", core.Case{Kind: "burst", A: int64(g)}, b)
		}
		if out.TablesBefore != out.TablesAfter {
			confirmed("shared-table-mutated", core.Case{Kind: "burst", A: int64(g)}, "the digest of the shared tables changed during a load burst")
		}
		w.Eval(out.Calls)
		w.Count("load_burst_calls", uint64(out.Calls))
	}

	// --- race runs (race-instrumented build) ------------------------------
	type rc struct{ g, p int }
	cfgs := []rc{{4, 2}, {16, 16}, {64, 4}}
	calls := 200000
	if thorough {
		cfgs = []rc{{4, 2}, {4, 4}, {4, 16}, {16, 2}, {16, 4}, {16, 16}, {64, 2}, {64, 4}, {64, 16}}
		calls = 2000000
	}
	raceSeen := map[string]int{}
	raceBlocks := 0
	for ci, c := range cfgs {
		logBase := filepath.Join(work, fmt.Sprintf("c05-race%d", ci))
		cfg := c05Cfg{Mode: "race", G: c.g, P: c.p, N: calls / c.g, Seed: r.Seed*77 + uint64(ci), Gosched: 8}
		out, lg, err := runChild(raceBin, cfg, fmt.Sprintf("race%d", ci), []string{"GORACE=halt_on_error=0 exitcode=0 history_size=5 log_path=" + logBase})
		matches, _ := filepath.Glob(logBase + ".*")
		for _, m := range matches {
			f, e := os.Open(m)
			if e != nil {
				continue
			}
			sc := bufio.NewScanner(f)
			sc.Buffer(make([]byte, 1<<20), 1<<20)
			var block strings.Builder
			inBlock := false
			flush := func() {
				if !inBlock {
					return
				}
				raceBlocks++
				b := block.String()
				sig := raceSignature(b)
				raceSeen[sig]++
				if raceSeen[sig] == 1 {
					confirmed("data-race", core.Case{Kind: "race", S: sig}, fmt.Sprintf("race detector report (G=%d GOMAXPROCS=%d), outermost library frames: %s\n%s", c.g, c.p, sig, trunc(b, 1400)))
				}
				block.Reset()
				inBlock = false
			}
			for sc.Scan() {
				line := sc.Text()
				if strings.HasPrefix(line, "WARNING: DATA RACE") {
					flush()
					inBlock = true
				}
				if strings.HasPrefix(line, "==================") {
					flush()
					continue
				}
				if inBlock {
					block.WriteString(line)
					block.WriteByte('\n')
				}
			}
			flush()
			f.Close()
			os.Remove(m)
		}
		if err != nil {
			confirmed("fatal-under-concurrency", core.Case{Kind: "race", A: int64(ci)}, fmt.Sprintf("race-run child died (G=%d GOMAXPROCS=%d):\n%s", c.g, c.p, lg))
			continue
		}
		if out.TablesBefore != out.TablesAfter {
			confirmed("shared-table-mutated", core.Case{Kind: "race-run", A: int64(ci)}, fmt.Sprintf("the digest of the shared tables changed during race run %d", ci))
		}
		w.Count("table_digest_comparisons", 1)
		for _, b := range out.Bad {
			confirmed("history-dependence", core.Case{Kind: "race-run", A: int64(ci)}, b)
		}
		for op := 0; op < 2; op++ {
			for i, res := range out.Results[op] {
				if res == "" {
					continue
				}
				if want := ref[op][i]; want != "" && want != res {
					confirmed("history-dependence", core.Case{In: inputs[i], Kind: c05OpNames[op] + "|" + want}, fmt.Sprintf("%s(input) returned %q under %d concurrent goroutines; a fresh process returns %q", c05OpNames[op], res, c.g, want))
				}
				if s, ok := first[op][i]; ok && s.res != res {
					confirmed("history-dependence", core.Case{In: inputs[i], Kind: c05OpNames[op] + "|" + s.res}, fmt.Sprintf("%s(input) returned %q under %d concurrent goroutines and %q in history %d", c05OpNames[op], res, c.g, s.res, s.hist))
				}
			}
		}
		w.Eval(out.Calls)
		w.Count("race_run_calls", uint64(out.Calls))
		w.Count("race_run_configurations", 1)
	}
	w.Count("race_report_blocks", uint64(raceBlocks))
	w.Count("distinct_race_signatures", uint64(len(raceSeen)))
	w.Count("shared_inputs", uint64(len(inputs)))
	for i := 0; i < 4 && i < len(inputs); i++ {
		w.Sample(inputs[i*7%len(inputs)])
	}
}
