package mon

import (
	"fmt"
	"strconv"
	"strings"
	"sync"

	li "github.com/corazawaf/libinjection-go"

	"verif/harness/core"
	"verif/harness/gen"
	"verif/harness/refsql"
)

var kwLookOnce sync.Once
var kwLook refsql.Lookup

func refLookup() refsql.Lookup {
	kwLookOnce.Do(func() { kwLook = refsql.NewLookup(keywords()) })
	return kwLook
}

func refMode(flags int) refsql.Mode {
	m := refsql.Mode{MySQL: flags&li.VerifSQLFlagMysql != 0}
	if flags&li.VerifSQLFlagQuoteSingle != 0 {
		m.Quote = '\''
	} else if flags&li.VerifSQLFlagQuoteDouble != 0 {
		m.Quote = '"'
	}
	return m
}

func dumpRefTokens(toks []refsql.Token) string {
	var b strings.Builder
	for i, t := range toks {
		if i >= 12 {
			b.WriteString("  …\n")
			break
		}
		fmt.Fprintf(&b, "  #%d %c pos=%d len=%d val=%q open=%q close=%q count=%d after=%d\n", i, t.Cat, t.Pos, t.Len, t.Val, t.Open, t.Close, t.Count, t.After)
	}
	return b.String()
}

func sameTok(a *li.VerifSQLToken, b *refsql.Token, withAfter bool) bool {
	if a.Category != b.Cat || a.Pos != b.Pos || a.Len != b.Len || a.Val != b.Val || a.StrOpen != b.Open || a.StrClose != b.Close || a.Count != b.Count {
		return false
	}
	return !withAfter || a.After == b.After
}

// compareSQL returns "" when implementation and reference agree on s.
func compareSQL(w *core.Worker, s string) (kind, msg string) {
	kw := refLookup()
	for _, m := range sqlModes {
		rm := refMode(m)
		// (i) token stream
		if len(s) <= 70000 {
			got := li.VerifSQLTokens(s, m)
			want, lx, wcap := refsql.Tokens(s, rm, kw)
			bad := got.Capped || wcap || len(got.Tokens) != len(want)
			for i := 0; !bad && i < len(want); i++ {
				if !sameTok(&got.Tokens[i], &want[i], true) {
					bad = true
				}
			}
			if !bad && (got.StatsTokens != lx.NTok || got.StatsCommentDDX != lx.NDDX || got.StatsCommentHash != lx.NHash || got.FinalPos != lx.Pos) {
				bad = true
			}
			if bad {
				return "token-stream-mismatch", fmt.Sprintf("mode %s\n impl (tokens=%d ddx=%d hash=%d final=%d capped=%v):\n%s ref (tokens=%d ddx=%d hash=%d final=%d):\n%s", modeName(m),
					got.StatsTokens, got.StatsCommentDDX, got.StatsCommentHash, got.FinalPos, got.Capped, dumpSQLTrace(&got), lx.NTok, lx.NDDX, lx.NHash, lx.Pos, dumpRefTokens(want))
			}
			if w != nil {
				w.Count("tokens_compared", uint64(len(want)))
			}
		}
		// (ii) folded sequence
		gf := li.VerifSQLFold(s, m)
		wt, ntok, folds, ddx, hash := refsql.FoldOnly(s, rm, kw)
		bad := len(gf.Tokens) != len(wt) || gf.StatsFolds != folds || gf.StatsTokens != ntok || gf.StatsCommentDDX != ddx || gf.StatsCommentHash != hash
		for i := 0; !bad && i < len(wt); i++ {
			if !sameTok(&gf.Tokens[i], &wt[i], false) {
				bad = true
			}
		}
		if bad {
			return "fold-mismatch", fmt.Sprintf("mode %s\n impl (tokens=%d folds=%d ddx=%d hash=%d):\n%s ref (tokens=%d folds=%d ddx=%d hash=%d):\n%s", modeName(m),
				gf.StatsTokens, gf.StatsFolds, gf.StatsCommentDDX, gf.StatsCommentHash, dumpSQLTrace(&gf), ntok, folds, ddx, hash, dumpRefTokens(wt))
		}
		// (iii) fingerprint and per-mode verdict
		gp := li.VerifSQLPassOn(s, m)
		var hit func(string)
		if w != nil && len(s) <= 512 {
			hit = func(rule string) { w.Observe("reference_rules_fired", rule) }
		}
		wp := refsql.RunPassTraced(s, rm, kw, hit)
		if gp.Fingerprint != wp.FP || gp.Blacklisted != wp.Blacklisted || gp.Verdict != wp.Verdict || gp.StatsTokens != wp.NTok || gp.StatsFolds != wp.Folds {
			return "pass-mismatch", fmt.Sprintf("mode %s: impl fingerprint %q blacklisted=%v verdict=%v tokens=%d folds=%d; ref fingerprint %q blacklisted=%v verdict=%v tokens=%d folds=%d\n ref folded:\n%s", modeName(m),
				gp.Fingerprint, gp.Blacklisted, gp.Verdict, gp.StatsTokens, gp.StatsFolds, wp.FP, wp.Blacklisted, wp.Verdict, wp.NTok, wp.Folds, dumpRefTokens(wp.V[:wp.NFold]))
		}
		if w != nil {
			if wp.FP != "" && len(s) <= 256 {
				w.Observe("fingerprints", wp.FP)
			}
			if wp.Folds > 0 {
				w.Count("passes_with_folding", 1)
			}
			if wp.Verdict {
				w.Count("passes_firing_"+modeName(m), 1)
			} else if wp.Blacklisted {
				w.Count("passes_whitelisted", 1)
			}
		}
	}
	// (iv) public verdict
	gb, gfp := li.IsSQLi(s)
	wb, wfp := refsql.IsSQLi(s, kw)
	if gb != wb || gfp != wfp {
		return "verdict-mismatch", fmt.Sprintf("IsSQLi = (%v,%q); reference = (%v,%q)", gb, gfp, wb, wfp)
	}
	return "", ""
}

var c06Quick = []Mix{
	{Gen: "corpus"}, {Gen: "bytes"}, {Gen: "padded"}, {Gen: "trunc"},
	{Gen: "atoms", Dict: "sqlcore", K: 3},
	{Gen: "atoms", Dict: "sqledge", K: 4},
	{Gen: "atoms", Dict: "sqlmid", K: 4},
	{Gen: "atoms", Dict: "sqlext", K: 2},
	{Gen: "seq", Dict: "sqlext", N: 300000},
	{Gen: "mut", Dict: "sqlext", N: 200000},
	{Gen: "novel", Dict: "sqlext", N: 150000},
	{Gen: "wl", N: 100000},
	{Gen: "longtok", N: 30000},
	{Gen: "g03", N: 100000},
	{Gen: "phrases", N: 0},
	{Gen: "special5", N: 0},
	{Gen: "tokseq", N: 3},
	{Gen: "scale1", N: 288 << 10}, {Gen: "seam"}, {Gen: "nulpad"}, {Gen: "wrapcount"}, {Gen: "foldalias"}, {Gen: "qualified"}, {Gen: "gluelit"}, {Gen: "encatk"}, {Gen: "dialect"}, {Gen: "prose"}, {Gen: "doubled"}, {Gen: "toktails"},
}

var c06Thorough = []Mix{
	{Gen: "corpus"}, {Gen: "bytes"}, {Gen: "padded", N: 1}, {Gen: "trunc"},
	{Gen: "atoms", Dict: "sqlcore", K: 4},
	{Gen: "atoms", Dict: "sqledge", K: 6},
	{Gen: "atoms", Dict: "sqlmid", K: 5},
	{Gen: "atoms", Dict: "sqlext", K: 3},
	{Gen: "seq", Dict: "sqlext", N: 5000000},
	{Gen: "mut", Dict: "sqlext", N: 4000000},
	{Gen: "novel", Dict: "sqlext", N: 3000000},
	{Gen: "wl", N: 2000000},
	{Gen: "longtok", N: 500000},
	{Gen: "g03", N: 2000000},
	{Gen: "phrases", N: 1},
	{Gen: "special5", N: 1},
	{Gen: "tokseq", N: 5},
	{Gen: "scale1", N: 288 << 10}, {Gen: "scale", N: 70000}, {Gen: "seam", N: 1}, {Gen: "nulpad"}, {Gen: "wrapcount"}, {Gen: "foldalias"}, {Gen: "qualified"}, {Gen: "gluelit"}, {Gen: "encatk"}, {Gen: "dialect"}, {Gen: "prose"}, {Gen: "doubled"}, {Gen: "toktails"},
}

// C06 — SQLi pipeline conforms to the reference algorithm.
func c06() *core.Check {
	return &core.Check{
		ID: "C06",
		Rule: "every SQL workload input (corpus, every truncation, bounded-exhaustive atom sequences over byte-class and keyword dictionaries, random sequences, havoc / novelty-guided mutation, whitelist- and long-token-directed shapes, attack-grammar members, every keyword-table phrase and keyword in context) is run through the real pipeline (accessors) and through the independently written reference in all six modes: token stream (class, offset, length, value, open/close marks, count, scan offset after each token, counters), folded sequence and fold counter, fingerprint / blacklist / per-mode verdict, and IsSQLi vs the reference cascade. " +
			"Non-trivial = inputs with >= 2 tokens in some mode; distinct by input.",
		Plan: func(tier string, seed uint64) []core.Unit {
			mixes := c06Quick
			if tier == "thorough" {
				mixes = c06Thorough
			}
			var us []core.Unit
			for _, m := range mixes {
				if m.Gen == "phrases" {
					us = append(us, core.Unit{Gen: "phrases", Lo: 0, Hi: 1, Arg: fmt.Sprint(m.N)})
					continue
				}
				if m.Gen == "special5" {
					for i := 0; i < 16; i++ {
						us = append(us, core.Unit{Gen: "special5", Lo: uint64(i), Hi: 16, Arg: fmt.Sprint(m.N)})
					}
					continue
				}
				if m.Gen == "tokseq" {
					us = append(us, gen.EnumUnits("tokseq", len(tokSeqAlphabet), int(m.N), 20000)...)
					continue
				}
				us = append(us, planMix(sqlDomain, []Mix{m})...)
			}
			return us
		},
		Gen: func(w *core.Worker, u core.Unit, emit func(core.Case)) {
			if u.Gen == "phrases" {
				genKeywordContexts(u.Arg == "1", emit)
				return
			}
			if u.Gen == "special5" {
				genSpecial5(int(u.Lo), int(u.Hi), u.Arg == "1", emit)
				return
			}
			if u.Gen == "tokseq" {
				k, _ := strconv.Atoi(u.Arg)
				var buf []byte
				var idx [8]int
				for i := u.Lo; i < u.Hi; i++ {
					x := i
					for j := k - 1; j >= 0; j-- {
						idx[j] = int(x % uint64(len(tokSeqAlphabet)))
						x /= uint64(len(tokSeqAlphabet))
					}
					buf = buf[:0]
					for j := 0; j < k; j++ {
						if j > 0 {
							buf = append(buf, ' ')
						}
						buf = append(buf, tokSeqAlphabet[idx[j]]...)
					}
					emit(core.Case{In: string(buf)})
				}
				return
			}
			sqlGen(w, u, emit)
		},
		One: func(w *core.Worker, c core.Case) {
			s := c.In
			if len(s) > 1<<19 && c.Kind != "seam" {
				return
			}
			w.Eval(1)
			if kind, msg := compareSQL(w, s); kind != "" {
				w.Violate(kind, msg)
				return
			}
			if len(s) <= 8192 {
				for _, m := range sqlModes[:1] {
					tr := li.VerifSQLTokens(s, m)
					if len(tr.Tokens) >= 2 {
						w.Nontrivial(s)
					}
					if len(s) <= 64 {
						for i := 0; i+2 < len(tr.Tokens) && i < 6; i++ {
							w.Observe("class_trigrams", string([]byte{tr.Tokens[i].Category, tr.Tokens[i+1].Category, tr.Tokens[i+2].Category}))
						}
					}
				}
			}
			w.Sample(s)
		},
		Explain: func(c core.Case) string {
			kind, msg := compareSQL(nil, c.In)
			if kind == "" {
				return "implementation and reference agree"
			}
			return kind + ": " + msg
		},
		Assumptions: []string{
			"the reference is my executable statement of the libinjection SQLi algorithm with the spec decisions of DESIGN.md §5 (Unicode-aware upper-casing of look-up keys, the 1c whitelist order)",
			"the reference reads the live keyword table through the accessor",
		},
	}
}

// genKeywordContexts: every key of the live table (words, phrases,
// operators) in a few sentence frames, so that every table entry takes part
// in the differential comparison.
func genKeywordContexts(full bool, emit func(core.Case)) {
	frames := []string{"%s", "1 %s 1", "a %s (1)", "1;%s 1", "%s.a", "%s`a`", "1 or %s", "1 %s select 1", "'a' %s 'b'", "select %s from", "(%s)", "%s(1)", "1 union %s 1 --"}
	if !full {
		frames = frames[:8]
	}
	for k, v := range keywords() {
		if v == 'F' {
			continue
		}
		low := strings.ToLower(k)
		for _, f := range frames {
			emit(core.Case{In: fmt.Sprintf(f, low)})
		}
		emit(core.Case{In: "1 " + k})
		if i := strings.IndexByte(low, ' '); i > 0 {
			emit(core.Case{In: low[:i] + "/**/" + low[i+1:] + " 1"})
			emit(core.Case{In: low[:i] + "\n" + low[i+1:] + "(1)"})
			emit(core.Case{In: low[:i] + "  " + low[i+1:]})
		}
	}
}

// tokSeqAlphabet: one spelling or more per token class and per word the
// folding rules name; sequences are joined by single spaces.
var tokSeqAlphabet = []string{"1", "a", "(", ")", ",", "+", "=", "in", "not in", "like", "\\", "user", "select", "union", "'s'", "@v", "or", "not", ";", "int", ".", "*", "{", "}", "if", "collate", "a_b", "::", "-", "sleep", "x.y", "`b`", "/*c*/", "--"}

// genSpecial5: inputs built around the four five-token shapes the folder
// special-cases (1 o ( 1 ) / n o ( n ) / 1 ) , ( 1 / n ) o ( n), with slot
// spellings that only BECOME the required class through an in-place rewrite
// (IN / NOT IN without '(' -> bareword, IN before '(' -> operator, LIKE,
// backslash before an arithmetic operator -> number, USER(x) -> bareword),
// followed by 0-2 more tokens so that a sixth token is buffered.
func genSpecial5(part, parts int, full bool, emit func(core.Case)) {
	num := []string{"1", "2.5", "\\N", "0x1f"}
	bare := []string{"x", "in", "not in", "`a`", "[a]", "y1"}
	op := []string{"=", "+", "like", "in", "||", "not in", "<=>", "mod"}
	nOr1 := append(append([]string{}, bare...), num...)
	type pat [][]string
	pats := []pat{
		{num, append([]string{","}, op...), {"("}, append(append([]string{}, num...), "\\*2", "\\"), {")"}},
		{bare, op, {"("}, nOr1, {")"}},
		{num, {")"}, {","}, {"("}, append(append([]string{}, num...), "\\*2", "\\+1")},
		{bare, {")"}, op, {"("}, bare},
	}
	tails := []string{"", "y", "1", "union select 1", "or 1=1", "(", ")", "+", "--", "'a'", "in (1)", ",2", "=1", "*2", "union", "y union select 1", ") x", "( x"}
	leads := []string{"", "(", "-", "1;"}
	if !full {
		leads = leads[:2]
	}
	k := 0
	for _, p := range pats {
		var rec func(i int, cur []string)
		rec = func(i int, cur []string) {
			if i == len(p) {
				body := strings.Join(cur, "")
				spaced := strings.Join(cur, " ")
				for _, ld := range leads {
					for _, t1 := range tails {
						k++
						if k%parts != part {
							continue
						}
						emit(core.Case{In: ld + spaced + " " + t1})
						emit(core.Case{In: ld + body + " " + t1})
						if full {
							for _, t2 := range tails[:10] {
								emit(core.Case{In: ld + spaced + " " + t1 + " " + t2})
							}
						}
					}
				}
				return
			}
			for _, x := range p[i] {
				rec(i+1, append(cur, x))
			}
		}
		rec(0, nil)
	}
}
