package mon

import (
	"encoding/base64"
	"encoding/hex"
	"fmt"
	"strconv"
	"strings"

	li "github.com/corazawaf/libinjection-go"

	"verif/harness/core"
	"verif/harness/gen"
)

var htmlQuick = []Mix{
	{Gen: "corpus"}, {Gen: "bytes"}, {Gen: "padded"}, {Gen: "trunc"},
	{Gen: "atoms", Dict: "htmlbytes", K: 4},
	{Gen: "atoms", Dict: "htmlfull", K: 2},
	{Gen: "seq", Dict: "htmlfull", N: 300000},
	{Gen: "mut", Dict: "htmlfull", N: 250000},
	{Gen: "novel", Dict: "htmlfull", N: 150000},
	{Gen: "g04", N: 150000},
	{Gen: "scale", N: 70000}, {Gen: "seam"}, {Gen: "nulpad"}, {Gen: "wrapcount"}, {Gen: "foldalias"}, {Gen: "attrvals"}, {Gen: "nsattrs"}, {Gen: "elements"}, {Gen: "doubled"}, {Gen: "toktails"},
}

var htmlThorough = []Mix{
	{Gen: "corpus"}, {Gen: "bytes"}, {Gen: "padded", N: 1}, {Gen: "trunc"},
	{Gen: "atoms", Dict: "htmlbytes", K: 5},
	{Gen: "atoms", Dict: "htmlfull", K: 3},
	{Gen: "seq", Dict: "htmlfull", N: 4000000},
	{Gen: "mut", Dict: "htmlfull", N: 4000000},
	{Gen: "novel", Dict: "htmlfull", N: 2000000},
	{Gen: "g04", N: 2000000},
	{Gen: "scale", N: 70000}, {Gen: "scale", N: 100000}, {Gen: "seam", N: 1}, {Gen: "nulpad"}, {Gen: "wrapcount"}, {Gen: "foldalias"}, {Gen: "attrvals"}, {Gen: "nsattrs"}, {Gen: "elements"}, {Gen: "doubled"}, {Gen: "toktails"},
}

func htmlPlan(quick, thorough []Mix) func(string, uint64) []core.Unit {
	return func(tier string, seed uint64) []core.Unit {
		if tier == "thorough" {
			return planMix(htmlDomain, thorough)
		}
		return planMix(htmlDomain, quick)
	}
}

func htmlGen(w *core.Worker, u core.Unit, emit func(core.Case)) {
	if genMix(htmlDomain, w, u, emit) {
		return
	}
	switch u.Gen {
	case "g04":
		genC04x(w, u, true, func(s, meta string) { emit(core.Case{In: s}) })
	}
}

func stripLtEq(s string, r *core.Rng) string {
	if strings.IndexByte(s, '<') < 0 && strings.IndexByte(s, '=') < 0 {
		return s
	}
	b := []byte(s)
	repl := []byte{' ', '>', '/', '\'', '"', '`', 'x', ':', ';', '&', '#', 0}
	mode := r.Intn(3)
	out := b[:0]
	for _, c := range b {
		if c == '<' || c == '=' {
			switch mode {
			case 0:
				continue
			case 1:
				c = repl[r.Intn(len(repl))]
			default:
				c = ' '
			}
		}
		out = append(out, c)
	}
	return string(out)
}

// pctEncode: URL-encodes every byte that is not a letter or digit.
func pctEncode(s string) string {
	var b strings.Builder
	for i := 0; i < len(s); i++ {
		c := s[i]
		if c >= 'a' && c <= 'z' || c >= 'A' && c <= 'Z' || c >= '0' && c <= '9' {
			b.WriteByte(c)
		} else {
			fmt.Fprintf(&b, "%%%02X", c)
		}
	}
	return b.String()
}

// C15 — no '<' and no '=' => never XSS.
func c15() *core.Check {
	quick := []Mix{
		{Gen: "atoms", Dict: "htmlbytes0", K: 5},
		{Gen: "atoms", Dict: "htmlfull0", K: 3},
		{Gen: "f-corpus"}, {Gen: "f-seq", N: 300000}, {Gen: "f-mut", N: 300000}, {Gen: "f-g04", N: 300000}, {Gen: "f-bytetpl"}, {Gen: "f-utf8tpl"}, {Gen: "f-scale", N: 128 << 10}, {Gen: "f-padded"}, {Gen: "nulpad"}, {Gen: "wrapcount"}, {Gen: "foldalias"}, {Gen: "attrvals"}, {Gen: "nsattrs"}, {Gen: "elements"}, {Gen: "doubled"}, {Gen: "toktails"}, {Gen: "huge", Dict: "quick"}, {Gen: "encvec"}, {Gen: "giantx"},
	}
	thorough := []Mix{
		{Gen: "atoms", Dict: "htmlbytes0", K: 6},
		{Gen: "atoms", Dict: "htmlfull0", K: 4},
		{Gen: "f-corpus"}, {Gen: "f-seq", N: 5000000}, {Gen: "f-mut", N: 5000000}, {Gen: "f-g04", N: 5000000}, {Gen: "f-bytetpl"}, {Gen: "f-utf8tpl"}, {Gen: "f-scale", N: 1 << 20}, {Gen: "f-scale", N: 100000}, {Gen: "f-padded", N: 1}, {Gen: "nulpad"}, {Gen: "wrapcount"}, {Gen: "foldalias"}, {Gen: "attrvals"}, {Gen: "nsattrs"}, {Gen: "elements"}, {Gen: "doubled"}, {Gen: "toktails"}, {Gen: "huge", Dict: "thorough"}, {Gen: "encvec"}, {Gen: "giantx", N: 1},
	}
	plan := func(tier string, seed uint64) []core.Unit {
		mixes := quick
		if tier == "thorough" {
			mixes = thorough
		}
		var us []core.Unit
		for _, m := range mixes {
			switch m.Gen {
			case "f-corpus":
				us = append(us, gen.RangeUnits("f-corpus", uint64(len(gen.CorpusHTML())), 16, "")...)
			case "f-bytetpl":
				us = append(us, gen.RangeUnits("f-bytetpl", 256, 16, "")...)
			case "huge":
				us = append(us, gen.RangeUnits("huge", uint64(len(hugeSizes(m.Dict))*3), 1, m.Dict)...)
			case "encvec":
				us = append(us, gen.RangeUnits("encvec", uint64(len(gen.HTMLSeeds)), 32, "")...)
			case "giantx":
				for i := range giantSizes(m.N == 1) {
					us = append(us, core.Unit{Gen: "giantx", Lo: uint64(i), Hi: uint64(i + 1), Arg: strconv.FormatUint(m.N, 10)})
				}
			case "f-utf8tpl":
				us = append(us, gen.RangeUnits("f-utf8tpl", uint64(len(utf8Chars())), 96, "")...)
			case "f-scale":
				for _, u := range planMix(htmlDomain, []Mix{{Gen: "scale", N: m.N}}) {
					u.Gen = "f-scale"
					us = append(us, u)
				}
			case "f-padded":
				for _, u := range planMix(htmlDomain, []Mix{{Gen: "padded", N: m.N}}) {
					u.Gen = "f-padded"
					us = append(us, u)
				}
			case "f-seq", "f-mut", "f-g04":
				us = append(us, gen.RangeUnits(m.Gen, m.N, 20000, "htmlfull")...)
			default:
				us = append(us, planMix(htmlDomain, []Mix{m})...)
			}
		}
		return us
	}
	return &core.Check{
		ID: "C15",
		Rule: "strings over bytes minus {'<','='}: bounded-exhaustive sequences over the HTML alphabet minus atoms containing the two bytes; corpus truncations, random sequences, mutations, XSS-grammar vectors, byte / UTF-8 character templates, the length-parameterised families at 128 KiB (thorough 1 MiB) corpus inputs padded to 255-65537 bytes, NUL-padded words and benign bodies of 128 KiB-16 MiB (thorough 64 MiB), with every '<'/'=' deleted or replaced; every seed vector in 31 transport encodings that hold neither byte (CSS hex escapes in three spellings inside and outside rule bodies, \\\\u escapes inside JSON / template braces, base64 with and without a data: prefix, hex, URL / double URL encoding, character references, \\\\u003c / \\\\x3c / octal escapes, UTF-7, high-bit US-ASCII, fullwidth); plain prose of 100 and 128 MiB (thorough up to 256 MiB). Oracle: IsXSS = false (the firing context is reported). " +
			"Non-trivial = the tokenizer produced a non-text token in some context (attribute machinery exercised); distinct by input.",
		Plan: plan,
		Gen: func(w *core.Worker, u core.Unit, emit func(core.Case)) {
			if genMix(htmlDomain, w, u, emit) {
				return
			}
			r := core.NewRng(w.R.Seed, "c15", u.Gen, fmt.Sprint(u.Lo))
			f := func(c core.Case) { emit(core.Case{In: stripLtEq(c.In, r)}) }
			switch u.Gen {
			case "f-corpus":
				u2 := u
				u2.Gen = "trunc"
				genMix(htmlDomain, w, u2, f)
			case "f-seq":
				u2 := u
				u2.Gen = "seq"
				genMix(htmlDomain, w, u2, f)
			case "f-mut":
				u2 := u
				u2.Gen = "mut"
				genMix(htmlDomain, w, u2, f)
			case "f-g04":
				genC04(w, u, func(s, meta string) { f(core.Case{In: s}) })
			case "giantx":
				// plain prose beyond 100 MiB
				n := giantSizes(u.Arg == "1")[u.Lo]
				unit := []string{"lorem ipsum dolor sit amet ", "a"}[u.Lo%2]
				emit(core.Case{In: gen.Scale("", unit, "", n), Desc: gen.ScaleDesc("", unit, "", n)})
			case "encvec":
				// every seed vector in the transport encodings that contain neither
				// '<' nor '=': a decoder added in front of the scanner reports them
				for i := u.Lo; i < u.Hi && i < uint64(len(gen.HTMLSeeds)); i++ {
					v := gen.HTMLSeeds[i]
					if len(v) < 4 || len(v) > 200 {
						continue
					}
					b64 := base64.RawStdEncoding.EncodeToString([]byte(v))
					b64u := base64.RawURLEncoding.EncodeToString([]byte(v))
					hx := hex.EncodeToString([]byte(v))
					// CSS escapes (\3c + one white space, six-digit form, every byte escaped) inside
					// rule bodies, and \u escapes inside a JSON object: a '{' precedes the escapes
					css1 := strings.NewReplacer("<", "\\3c ", ">", "\\3e ", "=", "\\3d ").Replace(v)
					css6 := strings.NewReplacer("<", "\\00003C", ">", "\\00003E", "=", "\\00003D").Replace(v)
					cssAll := ""
					for k := 0; k < len(v); k++ {
						cssAll += "\\" + hex.EncodeToString([]byte{v[k]}) + " "
					}
					ju := strings.NewReplacer("<", "\\u003c", ">", "\\u003e", "=", "\\u003d", "\"", "\\\"").Replace(v)
					for _, e := range []string{"a{content:'" + css1 + "'}", "x{} " + css1, "@media x{a{b:" + css6 + "}}", "{" + cssAll + "}", "a{}" + cssAll, css1, css6, cssAll, "{\"k\":\"" + ju + "\"}", "${" + ju + "}", "{{" + css1 + "}}"} {
						emit(core.Case{In: e})
					}
					for _, e := range []string{"data:text/html;base64," + b64, "data:;base64," + b64, "data:image/svg+xml;base64," + b64, "base64," + b64u, b64, "DATA:text/html;charset\x00utf-8;base64," + b64,
						hx, "0x" + hx, "\\x" + strings.ToUpper(hx[:2]) + v[1:], pctEncode(v), pctEncode(pctEncode(v)), strings.ReplaceAll(pctEncode(v), "%", "%25"),
						strings.NewReplacer("<", "&lt;", ">", "&gt;", "=", "&#61;", "\"", "&quot;").Replace(v), strings.NewReplacer("<", "\\u003c", ">", "\\u003e", "=", "\\u003d").Replace(v),
						strings.NewReplacer("<", "\\x3c", ">", "\\x3e", "=", "\\x3d").Replace(v), strings.NewReplacer("<", "\xbc", ">", "\xbe", "=", "\xbd").Replace(v),
						strings.NewReplacer("<", "+ADw-", ">", "+AD4-", "=", "+AD0-").Replace(v), strings.NewReplacer("<", "\uff1c", ">", "\uff1e", "=", "\uff1d").Replace(v),
						strings.NewReplacer("<", "\\74", ">", "\\76", "=", "\\75").Replace(v),
						// charset switching sequences around the text (ISO-2022-JP/KR, HZ, SO/SI, BOMs)
						"Hello \x1b$B" + stripLtEq(v, r) + "\x1b(B world", "\x1b$@" + stripLtEq(v, r) + "\x1b(J", "\x1b$)C\x0e" + stripLtEq(v, r) + "\x0f", "~{" + stripLtEq(v, r) + "~}", "\xff\xfe" + stripLtEq(v, r), "+/v8-" + stripLtEq(v, r), "\x1b(B" + stripLtEq(v, r) + "\x1b$B", strings.NewReplacer("<", "%u003c", ">", "%u003e", "=", "%u003d").Replace(v)} {
						emit(core.Case{In: e})
					}
				}
			case "huge":
				sz := hugeSizes(u.Arg)
				for i := u.Lo; i < u.Hi; i++ {
					n := sz[int(i)/3]
					unit := []string{"lorem ipsum dolor sit amet ", "on x' y\" z` > / ", "a"}[int(i)%3]
					emit(core.Case{In: gen.Scale("", unit, "", n), Desc: gen.ScaleDesc("", unit, "", n)})
				}
			case "f-scale", "f-padded":
				// long inputs: a token budget or a length-dependent path
				u2 := u
				u2.Gen = u.Gen[2:]
				genMix(htmlDomain, w, u2, f)
			case "f-utf8tpl":
				u2 := u
				u2.Gen = "utf8tpl"
				genMix(htmlDomain, w, u2, f)
			case "f-bytetpl":
				u2 := u
				u2.Gen = "bytetpl"
				// all three filter modes for every template instance
				genMix(htmlDomain, w, u2, func(c core.Case) {
					for k := 0; k < 3; k++ {
						f(c)
					}
				})
			}
		},
		One: func(w *core.Worker, c core.Case) {
			s := c.In
			if strings.IndexByte(s, '<') >= 0 || strings.IndexByte(s, '=') >= 0 {
				w.Count("skipped_not_in_class", 1)
				return
			}
			w.Eval(1)
			// asked twice: the second answer comes right after this very input was
			// the last one this goroutine had scanned
			if li.IsXSS(s) || len(s) >= 32 && li.IsXSS(s) {
				fired := ""
				for i, ctx := range h5Ctxs {
					if li.VerifXSSCtx(s, ctx) {
						fired += " " + h5CtxNames[i]
					}
				}
				w.Violate("xss-without-lt-eq", "IsXSS returned true for an input without '<' and '='; contexts that fired:"+fired)
				return
			}
			if len(s) <= 4096 {
				nt := false
				for i, ctx := range h5Ctxs[1:] {
					toks, _ := li.VerifH5Tokens(s, ctx, 64)
					for _, t := range toks {
						if t.Type != tDataText {
							nt = true
							w.Observe("token_types_"+h5CtxNames[i+1], strconv.Itoa(t.Type))
						}
					}
				}
				if nt {
					w.Nontrivial(s)
				}
			}
			w.Sample(s)
		},
		Explain: func(c core.Case) string {
			out := fmt.Sprintf("IsXSS = %v\n", li.IsXSS(c.In))
			for i, ctx := range h5Ctxs {
				out += fmt.Sprintf("  %s: %v %s\n", h5CtxNames[i], li.VerifXSSCtx(c.In, ctx), dumpH5(c.In, ctx))
			}
			return out
		},
	}
}

func dumpH5(s string, ctx int) string {
	toks, capped := li.VerifH5Tokens(s, ctx, len(s)+2)
	var b strings.Builder
	for i, t := range toks {
		if i >= 16 {
			b.WriteString(" …")
			break
		}
		txt := ""
		if t.Off >= 0 && t.Len >= 0 && t.Off+t.Len <= len(s) {
			txt = s[t.Off : t.Off+t.Len]
			if len(txt) > 24 {
				txt = txt[:24] + "…"
			}
		} else {
			txt = "<out of range>"
		}
		fmt.Fprintf(&b, " [%s@%d+%d %q pos=%d]", h5TypeName(t.Type), t.Off, t.Len, txt, t.Pos)
	}
	if capped {
		b.WriteString(" CAPPED")
	}
	return b.String()
}

func h5TypeName(t int) string {
	names := []string{"DATA_TEXT", "TAG_NAME_OPEN", "TAG_NAME_CLOSE", "TAG_NAME_SELFCLOSE", "TAG_DATA", "TAG_CLOSE", "ATTR_NAME", "ATTR_VALUE", "TAG_COMMENT", "DOCTYPE"}
	if t >= 0 && t < len(names) {
		return names[t]
	}
	return "type" + strconv.Itoa(t)
}

// checkH5Trace: the generic inequalities of C17.
func checkH5Trace(s string, toks []li.VerifH5Token, capped bool) string {
	n := len(s)
	if capped || len(toks) > n+1 {
		return fmt.Sprintf("more than |s|+1 = %d tokens", n+1)
	}
	prevEnd := 0
	for i, t := range toks {
		switch {
		case t.Off < 0 || t.Len < 0:
			return fmt.Sprintf("token %d: negative offset/length (%d,%d)", i, t.Off, t.Len)
		case t.Off+t.Len > n:
			return fmt.Sprintf("token %d: [%d,%d) runs past the input of length %d", i, t.Off, t.Off+t.Len, n)
		case t.Off < prevEnd:
			return fmt.Sprintf("token %d: starts at %d inside the previous token (ends at %d)", i, t.Off, prevEnd)
		case t.Type < 0 || t.Type > 9:
			return fmt.Sprintf("token %d: unknown type %d", i, t.Type)
		}
		prevEnd = t.Off + t.Len
	}
	return ""
}

// C17 — HTML tokens stay inside the input, in order; first terminator wins.
func c17() *core.Check {
	return &core.Check{
		ID: "C17",
		Rule: "(1) every HTML workload input is tokenised from all five contexts with a step cap and the trace is checked against the range/order/count inequalities; (2) for each delimited construct (<% %>, CDATA, comment, <! >, <? >, doctype, quoted values embedded and as start context) every body over {terminator bytes, NUL, filler, '<'} up to length 6 (thorough 10), behind three text prefixes, every byte value and some multi-byte characters next to the terminators, the first terminator inside 18 kinds of look-alike nesting ([..], (..), quotes, <%..%>, <!--..-->, {{..}} ...) and followed directly by a re-opener of the same construct (]]]]><![CDATA[>), is compared with a first-terminator oracle written from the property text: token offset, token length, resume offset; IE-conditional comment bodies and SGML declarations with -- comments as extra bodies; thorough tier: one comment of 2 GiB + 64 bytes. " +
			"Non-trivial = construct cases whose body holds at least one terminator byte, plus generic traces with >= 2 tokens; distinct by input.",
		Plan: func(tier string, seed uint64) []core.Unit {
			us := htmlPlan(htmlQuick, htmlThorough)(tier, seed)
			lvl := 0
			if tier == "thorough" {
				lvl = 3
			}
			if tier == "thorough" {
				// one comment whose terminator lies beyond 2^31 bytes (32-bit offsets)
				us = append(us, core.Unit{Gen: "twogib", Lo: 0, Hi: 1})
			}
			return append(us, planDecoy(lvl)...)
		},
		Gen: func(w *core.Worker, u core.Unit, emit func(core.Case)) {
			if u.Gen == "twogib" {
				ci := 0
				for i, c := range constructs {
					if c.name == "comment" {
						ci = i
					}
				}
				n := 1<<31 + 64
				unit := strings.Repeat("a", 64)
				emit(core.Case{In: gen.Scale("<!--", unit, "--><p>", n), Desc: gen.ScaleDesc("<!--", unit, "--><p>", n), Kind: "construct", A: int64(ci), B: 0})
				return
			}
			if u.Gen == "decoy" {
				genDecoy(w, u, func(s string, ci int, meta string) {
					pl, _ := strconv.Atoi(meta)
					emit(core.Case{In: s, Kind: "construct", A: int64(ci), B: int64(pl)})
				})
				return
			}
			htmlGen(w, u, emit)
		},
		One: func(w *core.Worker, c core.Case) {
			s := c.In
			if len(s) > 1<<19 && c.Kind != "seam" && c.Kind != "construct" {
				return
			}
			w.Eval(1)
			if c.Kind == "construct" {
				if msg := checkConstruct(w, s, int(c.A), int(c.B)); msg != "" {
					w.Violate("first-terminator", msg)
				}
				return
			}
			nt := false
			for i, ctx := range h5Ctxs {
				toks, capped := li.VerifH5Tokens(s, ctx, len(s)+2)
				if msg := checkH5Trace(s, toks, capped); msg != "" {
					w.Violate("trace-invariant", "context "+h5CtxNames[i]+": "+msg+"\n"+dumpH5(s, ctx))
				}
				if len(toks) >= 2 {
					nt = true
				}
				w.Count("tokens_checked", uint64(len(toks)))
				if len(s) <= 64 {
					for j := 0; j+1 < len(toks) && j < 8; j++ {
						w.Observe("type_bigrams", fmt.Sprintf("%d>%d", toks[j].Type, toks[j+1].Type))
					}
				}
			}
			if nt {
				w.Nontrivial(s)
			}
			w.Sample(s)
		},
		Explain: func(c core.Case) string {
			var b strings.Builder
			for i, ctx := range h5Ctxs {
				fmt.Fprintf(&b, "%s:%s\n", h5CtxNames[i], dumpH5(c.In, ctx))
			}
			if c.Kind == "construct" {
				cs := constructs[c.A]
				body := c.In[int(c.B)+len(cs.lead)+len(cs.inTok):]
				idx, tl := cs.term(cs.inTok + body)
				fmt.Fprintf(&b, "construct %s prefix=%d body=%q oracle: first terminator at %d (len %d) of the token text\n", cs.name, c.B, body, idx, tl)
			}
			return b.String()
		},
	}
}

func checkConstruct(w *core.Worker, s string, ci, prefixLen int) string {
	cs := constructs[ci]
	start := prefixLen + len(cs.lead)
	if start > len(s) {
		return ""
	}
	tokText := s[start:] // inTok + body
	idx, tlen := cs.term(tokText)
	wantLen := len(tokText)
	closed := idx >= 0
	if closed {
		wantLen = idx
	}
	toks, capped := li.VerifH5Tokens(s, cs.ctx, len(s)+2)
	if msg := checkH5Trace(s, toks, capped); msg != "" {
		return "construct " + cs.name + ": " + msg + "\n" + dumpH5(s, cs.ctx)
	}
	k := -1
	for i, t := range toks {
		if t.Off == start && t.Type == cs.typ {
			k = i
			break
		}
	}
	if k < 0 {
		return fmt.Sprintf("construct %s: no %s token at offset %d (right after the opener)\n%s", cs.name, h5TypeName(cs.typ), start, dumpH5(s, cs.ctx))
	}
	t := toks[k]
	if t.Len != wantLen {
		return fmt.Sprintf("construct %s: token length %d, first terminator puts it at %d (closed=%v)\n%s", cs.name, t.Len, wantLen, closed, dumpH5(s, cs.ctx))
	}
	if closed {
		resume := start + idx + tlen
		if t.Pos != resume {
			return fmt.Sprintf("construct %s: scanning resumes at %d, the terminator ends at %d\n%s", cs.name, t.Pos, resume, dumpH5(s, cs.ctx))
		}
		if k+1 < len(toks) && toks[k+1].Off < resume {
			return fmt.Sprintf("construct %s: next token starts at %d, before the end of the terminator (%d)\n%s", cs.name, toks[k+1].Off, resume, dumpH5(s, cs.ctx))
		}
		w.Count("constructs_closed", 1)
	} else {
		if k+1 < len(toks) {
			return fmt.Sprintf("construct %s: unterminated construct is followed by another token\n%s", cs.name, dumpH5(s, cs.ctx))
		}
		w.Count("constructs_unterminated", 1)
	}
	w.Observe("constructs", cs.name)
	body := tokText[len(cs.inTok):]
	for _, a := range cs.alpha[:2] {
		if strings.Contains(body, a) {
			w.Nontrivial(s)
			break
		}
	}
	return ""
}

// C13 — XSS contexts mean what they say; surrounding text cannot hide a vector.
func c13() *core.Check {
	embeds := []struct {
		ctx    int
		prefix string
	}{{li.VerifH5CtxNoQuote, "<a "}, {li.VerifH5CtxSingleQuote, "<a b='"}, {li.VerifH5CtxDoubleQuote, "<a b=\""}, {li.VerifH5CtxBackQuote, "<a b=`"}}
	texts := []string{"x", "text ", "'", "\"", "`", ">", "=", "a=b ", "&#60;", "\x00", "/>", "-->", "]]>", "%>", "x' y\" z` > = ", strings.Repeat("lorem ipsum ", 400),
		// characters and spellings that some decoder or font maps to '<'
		"\uff1c", "\u2039", "\u3008", "\ufe64", "\xbc", "\u00ab", "&lt;", "%3C", "\\u003c", "\\x3c", "+ADw-", "\uff1c/", "\uff1c!", "\xc0\xbc", "\xe0\x80\xbc"}
	return &core.Check{
		ID: "C13",
		Rule: "for every HTML workload input s (and for inputs of 128 KiB-16 MiB, thorough 64 MiB, whose only vector is at the very end or beginning): IsXSS(s) vs OR over the five per-context verdicts; verdict(s,ctx) vs verdict(embed_ctx(s), data) for the four attribute contexts; verdict(t+s, data) vs verdict(s, data) for 31 texts t without '<' (quotes, '>', '=', entities, NUL, comment enders, 4.8 KB of prose, 15 look-alikes and encoded spellings of '<'). " +
			"Non-trivial = inputs on which at least one context fires or the contexts disagree with each other; distinct by input.",
		Plan: func(tier string, seed uint64) []core.Unit {
			us := htmlPlan(htmlQuick, htmlThorough)(tier, seed)
			return append(us, gen.RangeUnits("hugeor", uint64(len(hugeSizes(tier))*4), 1, tier)...)
		},
		Gen: func(w *core.Worker, u core.Unit, emit func(core.Case)) {
			if u.Gen == "hugeor" {
				// request-body sized inputs with the only vector at the very end or
				// the very beginning: IsXSS against the OR of the contexts
				sz := hugeSizes(u.Arg)
				for i := u.Lo; i < u.Hi; i++ {
					n := sz[int(i)/4]
					fill := strings.Repeat("a", n)
					switch i % 4 {
					case 0:
						emit(core.Case{In: fill + "<script>alert(1)</script>", Kind: "hugeor"})
					case 1:
						emit(core.Case{In: "<script>alert(1)</script>" + fill, Kind: "hugeor"})
					case 2:
						emit(core.Case{In: fill + "' onerror='alert(1)", Kind: "hugeor"})
					default:
						emit(core.Case{In: strings.Repeat("x y ", n/4) + "\" onload=\"x", Kind: "hugeor"})
					}
				}
				return
			}
			htmlGen(w, u, emit)
		},
		One: func(w *core.Worker, c core.Case) {
			s := c.In
			if len(s) > 1<<19 && c.Kind != "hugeor" && c.Kind != "seam" {
				return
			}
			w.Eval(1)
			var v [5]bool
			or := false
			for i, ctx := range h5Ctxs {
				v[i] = li.VerifXSSCtx(s, ctx)
				or = or || v[i]
			}
			if got := li.IsXSS(s); got != or {
				w.Violate("or-mismatch", fmt.Sprintf("IsXSS = %v, per-context verdicts = %v", got, v))
			}
			if c.Kind == "hugeor" {
				w.Count("huge_inputs_or_checked", 1)
				if or {
					w.Nontrivial(fmt.Sprintf("huge|%d|%d", len(s), core.Hash64(s[len(s)-24:])))
				}
				return
			}
			for _, e := range embeds {
				in := li.VerifXSSCtx(s, e.ctx)
				emb := li.VerifXSSCtx(e.prefix+s, li.VerifH5CtxData)
				if in != emb {
					w.Violate("embed-mismatch", fmt.Sprintf("verdict in context %s = %v, verdict of %q+s as markup = %v\ncontext:%s\nembedded:%s", h5CtxNames[e.ctx], in, e.prefix, emb, dumpH5(s, e.ctx), dumpH5(e.prefix+s, li.VerifH5CtxData)))
				}
			}
			base := v[0]
			h := core.Hash64(s)
			for _, tt := range []string{texts[int(h%uint64(len(texts)))], texts[int((h>>8)%uint64(len(texts)))]} {
				if got := li.VerifXSSCtx(tt+s, li.VerifH5CtxData); got != base {
					w.Violate("prefix-text-mismatch", fmt.Sprintf("verdict(s, data) = %v but verdict(%q+s, data) = %v", base, trunc(tt, 40), got))
				}
			}
			w.Count("relations_checked", 7)
			diff := false
			for i := 1; i < 5; i++ {
				if v[i] != v[0] {
					diff = true
				}
			}
			if or {
				w.Count("some_context_fires", 1)
			}
			if diff {
				w.Count("contexts_disagree", 1)
			}
			if or || diff {
				w.Nontrivial(s)
			}
			w.Sample(s)
		},
		Explain: func(c core.Case) string {
			out := fmt.Sprintf("IsXSS = %v\n", li.IsXSS(c.In))
			for i, ctx := range h5Ctxs {
				out += fmt.Sprintf("  %s: %v%s\n", h5CtxNames[i], li.VerifXSSCtx(c.In, ctx), dumpH5(c.In, ctx))
			}
			return out
		},
	}
}

func trunc(s string, n int) string {
	if len(s) <= n {
		return s
	}
	return s[:n] + "…"
}
