package mon

import (
	"bufio"
	"fmt"
	"os"
	"path/filepath"
	"sort"
	"strings"

	li "github.com/corazawaf/libinjection-go"

	"verif/harness/core"
)

func verifDir() string {
	d := os.Getenv("VERIF_DIR")
	if d == "" {
		d = "/verif"
	}
	return d
}

func loadDrops(file string, into map[string]string) {
	f, err := os.Open(filepath.Join(verifDir(), "grammar", file))
	if err != nil {
		return
	}
	defer f.Close()
	sc := bufio.NewScanner(f)
	for sc.Scan() {
		line := sc.Text()
		if strings.HasPrefix(line, "#") || strings.TrimSpace(line) == "" {
			continue
		}
		p := strings.SplitN(line, "\t", 2)
		reason := ""
		if len(p) == 2 {
			reason = p[1]
		}
		into[p[0]] = reason
	}
}

func loadG03Drops() { loadDrops("g03_dropped.txt", g03Dropped) }

// CalibrateC03 is a construction-time tool (./check is never involved): it
// expands the whole grammar with every separator and mask and prints the
// productions that have undetected expansions, most specific key first.
func CalibrateC03() {
	type agg struct{ fail, total int }
	byKey := map[string]*agg{}
	ex := map[string]string{}
	r := core.NewRng(1, "calib")
	for _, m := range g03Members {
		pay := g03Payloads[m.pay]
		pre := g03Prefixes[m.pre]
		key := pay.tmpl + " @@ " + pre.text + g03Closers[m.closer] + " @@ " + g03Tails[m.tail]
		a := byKey[key]
		if a == nil {
			a = &agg{}
			byKey[key] = a
		}
		try := func(s string) {
			a.total++
			if b, _ := li.IsSQLi(s); !b {
				a.fail++
				if _, ok := ex[key]; !ok {
					ex[key] = s
				}
			}
		}
		for _, sep := range g03Seps {
			sep := sep
			for _, mk := range g03FixedMasks {
				try(g03Build(m, func(int) string { return sep }, mk))
			}
		}
		for i := 0; i < 40; i++ {
			try(g03Build(m, func(int) string { return g03Seps[r.Intn(len(g03Seps))] }, r.U64()))
		}
		for _, wm := range g03WordMasks(pay.tmpl) {
			for _, sep := range g03Seps[:3] {
				sep := sep
				try(g03Build(m, func(int) string { return sep }, wm))
			}
		}
	}
	var keys []string
	for k, a := range byKey {
		if a.fail > 0 {
			keys = append(keys, k)
		}
	}
	sort.Strings(keys)
	for _, k := range keys {
		a := byKey[k]
		fmt.Printf("%s\t%d/%d undetected, e.g. %q\n", k, a.fail, a.total, ex[k])
	}
	fmt.Fprintf(os.Stderr, "members=%d productions=%d failing=%d\n", len(g03Members), len(byKey), len(keys))
}
