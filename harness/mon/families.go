package mon

// Length-parameterised input families: every construct "repeated, nested or
// left unterminated". Used by C09 (timing) and the long-input parts of
// C01/C02.

import (
	"encoding/base64"
	"os"
	"path/filepath"
	"sort"
	"strconv"
	"strings"
	"sync"

	li "github.com/corazawaf/libinjection-go"

	"verif/harness/gen"
)

func crossPrefix(prefixes []string, units []scaleFam) []scaleFam {
	var out []scaleFam
	for _, p := range prefixes {
		for _, u := range units {
			out = append(out, scaleFam{p + u.prefix, u.unit, u.suffix})
		}
	}
	return out
}

var sqlUnits = []scaleFam{
	{"", "\\'", ""}, {"", "''", ""}, {"", "'", ""}, {"", "\"", ""}, {"", "`", ""}, {"", "\"\"", ""}, {"", "``", ""},
	{"", "\\", "'"}, {"", "\\\\", "'"}, {"", "\\\\'", ""}, {"", "a\\'", ""}, {"", "'a' ", ""}, {"", "'a'", ""}, {"", "'\\''", ""},
	{"", "\"a\" ", ""}, {"", "`a` ", ""}, {"", "'a'+", ""}, {"", "' '", ""}, {"", "''a", ""},
	{"", "$t$", ""}, {"", "$", ""}, {"", "$$", ""}, {"", "$a", ""}, {"", "$t$a", ""}, {"$t$", "a", ""}, {"$t$", "$t", ""}, {"$$", "$", ""}, {"", "$1", ""}, {"", "$.", ""},
	{"", "/*", ""}, {"", "/**/", ""}, {"", "/*a*/", ""}, {"", "*/", ""}, {"", "/", ""}, {"", "/*!", ""}, {"/*", "/*", ""}, {"/*", "*", ""}, {"/*", "/", ""},
	{"", "--\n", ""}, {"", "#\n", ""}, {"", "--", ""}, {"", "-", ""}, {"", "#", ""}, {"", "--x\n", ""}, {"", "- ", ""}, {"", "-- ", ""},
	{"", "@", ""}, {"", "@@", ""}, {"", "@a", ""}, {"", "@`", ""}, {"", "@'", ""}, {"", "@`a`", ""}, {"", "@a ", ""},
	{"", "[", ""}, {"", "[a]", ""}, {"", "]", ""}, {"", "[]", ""}, {"", "(", ""}, {"", ")", ""}, {"", "()", ""}, {"", "{", ""}, {"", "}", ""}, {"", "{a ", ""},
	{"", "1+", ""}, {"", "1,", ""}, {"", "1 ", ""}, {"", "a ", ""}, {"", "a.", ""}, {"", "a`", ""}, {"", "1.", ""}, {"", ".", ""}, {"", "1e", ""}, {"", "0x", ""}, {"", "1", ""}, {"", "a", ""},
	{"", "not.", ""}, {"", "not`", ""}, {"", "sleep.", ""}, {"", "select.", ""}, {"", "select`", ""}, {"", "union.", ""}, {"", "and.", ""}, {"", "or`", ""}, {"", "int.", ""}, {"", "in.", ""}, {"", "user.", ""},
	{"", "x'", ""}, {"", "x'1", ""}, {"x'", "1", ""}, {"", "b'", ""}, {"b'", "0", ""}, {"", "q'(", ""}, {"q'(", ")", ""}, {"q'(", "'", ""}, {"", "q'()'", ""}, {"", "n'", ""}, {"", "n'a'", ""}, {"", "e'", ""}, {"", "u&'", ""}, {"", "u&'a'", ""}, {"", "nq'(", ""}, {"", "u&", ""},
	{"", ";", ""}, {"", ",", ""}, {"", "\\", ""}, {"", "\\N", ""}, {"", ":", ""}, {"", "::", ""}, {"", "<=>", ""}, {"", "=", ""}, {"", "!", ""}, {"", "&", ""}, {"", "|", ""}, {"", "?", ""},
	{"", " ", ""}, {"", "\x00", ""}, {"", "\xa0", ""}, {"", "\x80", ""}, {"", "\n", ""},
	{"", "select ", ""}, {"", "union ", ""}, {"", "1 or ", ""}, {"", "not ", ""}, {"", "- -", ""}, {"", "1 and 1 ", ""}, {"", "a=1 ", ""}, {"", "in (", ""}, {"", "user(", ""},
	{"", "sp_password", ""}, {"1 --", "sp_passwor", ""}, {"", "1 --x\n", ""}, {"", "1 #x\n", ""},
	// list / expression shapes with a multi-byte period
	{"", "a,b,", ""}, {"", "'a',", ""}, {"", "(1),", ""}, {"", "1,(2),", ""}, {"", "f(1),", ""}, {"", "sleep(1),", ""}, {"", "1 or 1 ", ""}, {"", "a=1 and ", ""}, {"", "1+2*", ""}, {"", "@a,@b,", ""},
	{"", "`a`,", ""}, {"", "[a],", ""}, {"", "1;2;", ""}, {"", "(1)(", ""}, {"", "a.b.c,", ""}, {"", "1 in (1),", ""}, {"", "x like y or ", ""}, {"", "/*a*/1,", ""}, {"", "--a\n1,", ""}, {"", "'a'+'b'+", ""},
	{"select ", "a,", " from t"}, {"1 union select ", "1,", "1"}, {"1 in (", "1,", ")"}, {"'", "a,", "'"}, {"/*", "a,", "*/"}, {"q'(", "a)", ")'"},
}

func init() {
	// every dangling opener followed by a separator, repeated: a look-ahead
	// that fails and falls back one byte later re-does the look-ahead each time
	for _, o := range []string{"$a", "$ab", "$mod", "0x", "0b", "1e", "1e+", "q'", "nq'", "u&", "x'", "b'", "n'", "e'", "@", "@@", "@`", "[", "{", "\\", "1.", "/*!", "--", "$$", "$a$", "`", "'", "\""} {
		for _, sp := range []string{",", " ", ";", ")", "\n"} {
			sqlUnits = append(sqlUnits, scaleFam{"", o + sp, ""})
		}
	}
	for _, o := range []string{"<", "</", "<!", "<!-", "<!--", "<![", "<![CDATA[", "<%", "<?", "<a", "<a b=", "&", "&#", "&#x", "]", "]]", "-", "--", "%", "?"} {
		for _, sp := range []string{" ", "x", ">", "/", "\n"} {
			htmlUnits = append(htmlUnits, scaleFam{"", o + sp, ""})
		}
		// the opener once, then a run of NULs (skipped one by one)
		htmlUnits = append(htmlUnits, scaleFam{o, "\x00", ""})
	}
	// escaped quotes behind bytes of double-byte character sets (a lead-byte test that walks back or forth)
	for _, hb := range []string{"\xbf", "\xbf\xbf", "\x81", "\xe3\x80", "\xfe\xfe\xfe", "\xbf\x5c\xbf"} {
		sqlUnits = append(sqlUnits, scaleFam{"", hb + "\\'", ""}, scaleFam{"", hb + "''", ""}, scaleFam{"", hb + "\\\"", ""})
	}
	// ODBC braces around empty or short names, never closed
	for _, u := range []string{"{`` ", "{``", "{`a` ", "{a ", "{ a", "{1 ", "{'a' ", "{fn ", "{d 'a'} ", "{``.", "{`", "{}", "{{"} {
		sqlUnits = append(sqlUnits, scaleFam{"", u, ""})
	}
	// unquoted attribute values that hold markup again
	for _, u := range []string{"<a/b=", "<a b=", "<a b=<", "a=<", "<a\x00b=/"} {
		htmlUnits = append(htmlUnits, scaleFam{"", u, ""})
	}
	htmlUnits = append(htmlUnits, scaleFam{"<![CDATA[", "]", "x"}, scaleFam{"<![CDATA[", "]]", "x"}, scaleFam{"<!--", "-", "x"}, scaleFam{"<%", "%", "x"}, scaleFam{"<a href=", "&#", "x"}, scaleFam{"<a href='", "&#x", "g'"})
	sqlScale = crossPrefix([]string{"", "'", "\"", "1 '"}, sqlUnits)
	htmlScale = htmlUnits
	sqlDomain.scale, sqlDomain.scaleBase = sqlScale, sqlUnits
	htmlDomain.scale, htmlDomain.scaleBase = htmlScale, htmlUnits
	sqlDomain.aliasCases = sqlAliasCases
	htmlDomain.extraCases = map[string]func() []string{"attrvals": htmlAttrValCases, "nsattrs": htmlNsAttrCases, "elements": htmlElementCases, "doubled": func() []string { return doubledCases(gen.HTMLSeeds) }, "toktails": htmlTagTailCases}
	sqlDomain.extraCases = map[string]func() []string{"qualified": sqlQualifiedCases, "gluelit": sqlGlueLitCases, "encatk": sqlEncodedAttackCases, "dialect": sqlDialectCases, "prose": sqlProseCases, "doubled": func() []string { return doubledCases(gen.SQLSeeds) }, "toktails": sqlTokTailCases}
	htmlDomain.aliasCases = htmlAliasCases
	sqlDomain.seamPairs = [][2]string{{"sp_password", " --"}, {"1", " --sp_password"}, {"", "' OR 1=1-- "}, {"1 ", "\" or 1=1 #"}, {"1 /*", "*/ union select 1"}, {"1", " union select 1,2"}, {"$$", "$$ or 1=1"}, {"x'", "' or 1=1"}, {"1 --", "\n or 1=1"}, {"1 or 1=1 -- ' or 1=1 -- \" union select 1 -- ", ""}, {"a' or 1=1 -- \" union select 1,2 -- ", " x"}}
	sqlDomain.seamPads = []string{"a", " "}
	htmlDomain.seamPairs = [][2]string{{"<a title='", "' onclick=x>"}, {"<!--", "--><script>"}, {"", "<script>"}, {"<a ", "onerror=x>"}, {"x", "' onerror='y"}, {"<a href=\"", "\" src=javascript:x>"}, {"<![CDATA[", "]]><svt>"}}
	htmlDomain.seamPads = []string{"x", " "}
	sqlDomain.countUnits = []string{"/**/", "--\n", "#\n", "1,", "(", ";", "a ", "'a' "}
	sqlDomain.countFrames = [][2]string{{"1", "OR 1=1"}, {"1 ", " union select 1"}, {"'", "' or 1=1"}, {"", ""}, {"1 or 1=1", ""}, {"x' and ", "1=1 -- "}, {"1", "--"}, {"'a'", "#"}}
	htmlDomain.countUnits = []string{"<b>", "x=y ", "<!---->", "</b>", "&lt;", "<b x=y>"}
	htmlDomain.countFrames = [][2]string{{"", "<script>"}, {"<a ", "onerror=x>"}, {"", ""}, {"<a ", "href=javascript:x>"}}
}

var sqlScale = crossPrefix([]string{"", "'", "\"", "1 '"}, sqlUnits)

var htmlUnits = []scaleFam{
	{"", "<", ""}, {"", "</", ""}, {"", "<!", ""}, {"", "<!x>", ""}, {"", "<?", ""}, {"", "<?x>", ""}, {"", "<a>", ""}, {"", "</a>", ""}, {"", "<a", ""}, {"", "<a ", ""},
	{"<!--", "-", ""}, {"<!--", "- ", ""}, {"<!--", "-\x00", ""}, {"<!--", "--!", ""}, {"<!--", "--", ""}, {"<!--", "\x00", ""}, {"<!--", "-\x00\x00\x00\x00", ""}, {"<!--", "->", ""}, {"", "<!--", ""}, {"", "<!---->", ""}, {"<!--", "!>", ""},
	{"<!---", "\x00", ""}, {"<!--", "-\x00-\x00", ""},
	{"<%", "%", ""}, {"<%", "% ", ""}, {"<%", "%%>", ""}, {"", "<%", ""}, {"", "<%%>", ""}, {"<%", ">", ""}, {"<%", ">%", ""},
	{"<![CDATA[", "]", ""}, {"<![CDATA[", "]]", ""}, {"<![CDATA[", "] ", ""}, {"<![CDATA[", "]] ", ""}, {"", "<![CDATA[", ""}, {"", "<![CDATA[]]>", ""}, {"<![CDATA[", "]>", ""},
	{"", "&#", ""}, {"", "&#0", ""}, {"", "&#x0", ""}, {"", "&", ""}, {"", "&#1;", ""}, {"<a href=", "&#", ""}, {"<a href=", "&#0", ""}, {"<a href=", "&#x0", ""}, {"<a href=", "&#32;", ""}, {"<a href=", "0", ""}, {"<a href=&#", "0", ""},
	{"<a href=&#x", "0", ""}, {"<a href=", "\x01", ""}, {"<a href=", "\x80", ""}, {"<a href=", "\x00", ""}, {"<a href='", "&#106;", ""}, {"<a href=", "j\n", ""}, {"<a href=", "&", ""}, {"<a href=\"", " ", ""},
	{"", "/", ""}, {"", "a/", ""}, {"<a", "/", ""}, {"<a ", "/", ""}, {"<a ", "/ ", ""}, {"<a ", "a/", ""}, {"<a ", "a=b ", ""}, {"<a ", "href=x ", ""}, {"<a ", "a='b' ", ""}, {"<a ", "a='b'", ""}, {"<a ", "a ", ""}, {"<a ", "= ", ""}, {"<a ", "=", ""},
	{"<a", "\x00", ""}, {"<a ", "\x00", ""}, {"<a ", " ", ""}, {"<a b", "\x00", ""}, {"<a b=", " ", ""}, {"<a b=", "\x00", ""}, {"<", "\x00", ""}, {"<a ", "\x00=", ""},
	{"", "'", ""}, {"", "\"", ""}, {"", "`", ""}, {"<a b=", "'", ""}, {"<a b=", "\"", ""}, {"<a b=", "`", ""}, {"<a b='", "\"", ""}, {"<a b=", "''", ""}, {"", "' ", ""}, {"", "'=", ""}, {"", "'>", ""}, {"", "'/", ""},
	{"", "a=b ", ""}, {"", "=", ""}, {"", "a=", ""}, {"", ">", ""}, {"", "/>", ""}, {"", " ", ""}, {"", "\x00", ""}, {"", "a", ""}, {"", "a ", ""}, {"", "x=y>", ""}, {"", "on", ""}, {"", "onx=", ""},
	{"<!doctype", "x", ""}, {"<!doctype", "<", ""}, {"<!", "-", ""}, {"<!", "[", ""}, {"<!", "<!", ""}, {"<?", "<", ""}, {"</", " ", ""}, {"</a", " ", ""}, {"</a ", "b ", ""},
	{"<script", "\x00", ""}, {"<s", "\x00c", ""}, {"<a on", "\x00", "=x"}, {"<a ", "on\x00", ""},
	{"<!--[if", "x", ""}, {"<!--`", "x", ""}, {"<!--", "`", ""}, {"<?import", "x", ""}, {"<?xml", " ", ""},
	// complete small tags / attributes / references with a multi-byte period
	{"", "<b c=d>", ""}, {"", "<b c='d'>", ""}, {"", "<b c=d/>", ""}, {"", "<b></b>", ""}, {"", "<a href=x>", ""}, {"", "<b c=d e=f>", ""}, {"", "<b>x</b>", ""}, {"", "<!--x-->", ""}, {"", "<b/>", ""},
	{"<a href='", "&#x41;", "'>"}, {"<a href=\"", "&#65;", "\">"}, {"<a href=", "&#x41", ""}, {"<a href='", "&amp;", "'>"}, {"<a href='", "a:", "'>"}, {"<a style='", "a:b;", "'>"},
	{"<a href=\"", "x", "javascript:y\">"}, {"<a href='", "x/", "data:y'>"}, {"<a href=", "x", "vbscript:y>"}, {"<a href=\"javascript:", "x", "\">"}, {"' src='", "x", "java"}, {"<a href=\"", "&#120;", "javascript:y\">"},
	{"<a ", "b=c ", ">"}, {"<a ", "b='c' ", ">"}, {"<a ", "href=x ", ">"}, {"<a ", "onx=y ", ">"}, {"x' ", "b=c ", ""}, {"x\" ", "b='c' ", ""}, {"x` ", "b=c ", ""},
}

var htmlScale = htmlUnits

var sqlAliasOnce, htmlAliasOnce sync.Once
var sqlAliasList, htmlAliasList []string

// sqlAliasCases: every single-word key of the live keyword table (sorted) with
// one letter written as its non-ASCII alias, alone and in three frames.
func sqlAliasCases() []string {
	sqlAliasOnce.Do(func() {
		var keys []string
		for k, v := range keywords() {
			if v == 'F' || strings.ContainsAny(k, " ") || len(k) > 24 {
				continue
			}
			keys = append(keys, k)
		}
		sort.Strings(keys)
		frames := []string{"%s", "1 %s 1", "%s(1)", "1 %s select 1"}
		for n, k := range keys {
			for j, sp := range aliasSpellings(k) {
				f := frames[(n+j)%len(frames)]
				sqlAliasList = append(sqlAliasList, strings.Replace(f, "%s", sp, 1), strings.Replace(frames[0], "%s", strings.ToLower(sp), 1))
			}
		}
	})
	return sqlAliasList
}

// htmlAliasCases: every tag, attribute and event name of the live tables and
// the script-capable URL schemes, one letter written as its alias.
func htmlAliasCases() []string {
	htmlAliasOnce.Do(func() {
		add := func(w string, frames ...string) {
			for _, sp := range append(aliasSpellings(w), aliasSpellings(strings.ToLower(w))...) {
				for _, f := range frames {
					htmlAliasList = append(htmlAliasList, strings.Replace(f, "%s", sp, 1))
				}
			}
		}
		for _, t := range li.VerifBlackTags() {
			add(t, "<%s>", "<%s x>", "'><%s>")
		}
		for _, a := range li.VerifBlacks() {
			add(a.Name, "<a %s=x>", "<a %s=javascript:x>", "x' %s=javascript:x ")
		}
		for _, e := range li.VerifBlackEvents() {
			add("on"+e.Name, "<a %s=x>", " %s=x", "x\" %s=x ")
		}
		for _, sch := range []string{"javascript", "vbscript", "data", "view-source", "livescript", "mocha"} {
			add(sch, "<a href=%s:x>", "<a href='%s:x'>", "<a href=\" %s:x\">")
		}
		add("style", "<a %s=x>", " %s=x")
		add("doctype", "<!%s>", "<!%s html>")
	})
	return htmlAliasList
}

var attrValOnce, qualOnce, glueOnce sync.Once
var attrValList, qualList, glueList []string

// htmlAttrNames: attribute names of HTML, SVG and MathML elements beyond the
// ones the library's tables list - names a value-format-aware rule might be
// attached to.
var htmlAttrNames = strings.Fields(`accept accept-charset accesskey action align allow alt archive async attributename attributetype autocomplete autofocus
	autoplay background begin bgcolor border by calcmode charset cite class classid code codebase color cols colspan content contenteditable coords
	crossorigin csp d data data-x datetime declare default defer dir dirname download draggable dur encoding enctype end fill filter for form
	formaction formenctype formmethod formtarget from handler headers height hidden high href hreflang http-equiv icon id imagesizes imagesrcset
	integrity is ismap itemprop itemtype keytimes keysplines kind label lang language list longdesc loop low lowsrc manifest marker-start mask max
	maxlength media method min name nonce onx open optimum pattern ping placeholder points poster preload profile rel repeatcount restart rev rows
	rowspan sandbox scope seeknearest shape size sizes slot span src srcdoc srclang srcset standby start step style tabindex target title to
	transform type usemap value values version viewbox width wrap xlink:actuate xlink:href xlink:show xml:base xml:lang xml:space xmlns xmlns:xlink`)

// htmlValueShapes: values whose list, pair or reference syntax is cut short,
// doubled or empty.
var htmlValueShapes = []string{"", ";", ";;", ",", ",,", "0;;url=/a", "0;url=/a", "0; url=javascript:x", " ;x", ";x;", "x;", "a,b", "a, b 2x", ",a 1x,", "a  2x,,b", "url(x)", "url(", ":", "::", ":x", "x:", "&", "&#", "&#;", "&#x;", "&x", "&;",
	"%", "%%", "%2", "\\", "{}", "{", "a=b=c", "=", "#", "#x", "?", "//", "/", "javascript:", "x javascript:x", "  ", "\t\n", "\x00", "\x00;\x00", "(", "()", "1 2 3 4", "0 0 0", "a;b;c;d;e;f;g;h", ";;;;;;;;;;;;;;;;", ",,,,,,,,,,,,,,,,",
	"data:image/png,a;b", "data:image/png;base64,iVBORw0KGgo", "data:image/gif;,", "data:image/jpeg,", "data:image/webp;", "data:image/png;;base64,", "data:image/gif", "data:,", "data:;", "data:image/png,;", "data:image/svg+xml;utf8,a;b",
	"text/html;charset=utf-7", "text/html;;", "refresh", "a:b:c", "a;b=c;d=", "x, y z, ", "-", "--", "+", "0", "-1", "1e9", "99999999999999999999", "*", "a|b", "||", "a&b", "a&&", "[]", "[", "]]>", "-->", "?>", "%>", "'", "\"", "`"}

func htmlAttrValCases() []string {
	attrValOnce.Do(func() {
		names := append([]string{}, htmlAttrNames...)
		for _, a := range li.VerifBlacks() {
			names = append(names, strings.ToLower(a.Name))
		}
		for n, name := range names {
			for j, v := range htmlValueShapes {
				q := []string{"\"", "'", "`", ""}[(n+j)%4]
				if q == "" && (strings.ContainsAny(v, " \t\n>") || v == "") {
					q = "\""
				}
				if strings.Contains(v, q) && q != "" {
					q = map[string]string{"\"": "'", "'": "\"", "`": "\""}[q]
				}
				switch (n + j) % 3 {
				case 0:
					attrValList = append(attrValList, "<x "+name+"="+q+v+q+">")
				case 1:
					attrValList = append(attrValList, "<meta "+strings.ToUpper(name)+" = "+q+v+q+" x>")
				default:
					attrValList = append(attrValList, " "+name+"="+q+v+q+" ")
				}
			}
		}
		// one tag with k distinct listed attribute names (value-less events, then URL
		// attributes with harmless values): bookkeeping per tag with a fixed capacity
		var evs, urls []string
		for _, e := range li.VerifBlackEvents() {
			evs = append(evs, "on"+strings.ToLower(e.Name))
		}
		for _, a := range li.VerifBlacks() {
			urls = append(urls, strings.ToLower(a.Name)+"=/x")
		}
		for k := 1; k <= len(evs); k++ {
			if k > 40 && k%16 != 0 && k != len(evs) {
				continue
			}
			attrValList = append(attrValList, "<div "+strings.Join(evs[:k], " ")+">", "<div "+strings.Join(evs[len(evs)-k:], "\n")+" >t")
		}
		for k := 1; k <= len(urls); k++ {
			attrValList = append(attrValList, "<div "+strings.Join(urls[:k], " ")+">")
		}
	})
	return attrValList
}

// sqlQualifiedCases: every word of the live keyword table behind an owner,
// schema or database qualifier.
func sqlQualifiedCases() []string {
	qualOnce.Do(func() {
		var keys []string
		for k, v := range keywords() {
			if v == 'F' || strings.ContainsAny(k, " ") || len(k) > 28 {
				continue
			}
			keys = append(keys, strings.ToLower(k))
		}
		sort.Strings(keys)
		owners := []string{"sys.", "dbo.", "public.", "pg_catalog.", "master..", "information_schema.", "mysql.", "sys.x.", "x.sys.", "SYS.", "sys .", "[dbo].", "`sys`.", "\"sys\".", "a.b.c."}
		frames := []string{"%s(1)", "select %s from t", "%s", "1 union select %s(2)"}
		for n, k := range keys {
			for j, o := range owners {
				qualList = append(qualList, strings.Replace(frames[(n+j)%len(frames)], "%s", o+k, 1))
			}
		}
	})
	return qualList
}

// sqlGlueLitCases: every kind of string literal glued to what precedes it
// (number, hex, word, variable, closing bracket, operator) and followed by
// white space of every kind and another literal.
func sqlGlueLitCases() []string {
	glueOnce.Do(func() {
		lits := []string{"'a'", "\"a\"", "`a`", "$$a$$", "$t$a$t$", "q'(a)'", "nq'[a]'", "n'a'", "e'a'", "x'61'", "b'1'", "u&'a'", "_utf8'a'", "$a$ or 1=1 -- $a$", "$$ or 1=1 -- $$", "q'! or 1=1 -- !'"}
		pres := []string{"1", "0x1F", "1.5", "1e5", "1.", ".5", "0b1", "a", "a1", "_", "@v", "@@v", "1)", "a]", "}", "1=", "1,", ";", "\\N", "1 ", "select", "x.", "1e", "0x", "$1", "1$", "a$", "'b'", "\"b\""}
		betw := []string{"", " ", "\n", "\r\n", "\r", " \n ", "\t", "\v", "\f", "\xa0", "\x00", "/**/", "--\n", "\n\n", " \r\n\t"}
		tails := []string{"", " union select 1 -- ", " or 1=1", "x"}
		for i, l := range lits {
			for j, p := range pres {
				glueList = append(glueList, p+l+tails[(i+j)%len(tails)])
			}
			for j, b := range betw {
				for k, l2 := range lits[:6] {
					glueList = append(glueList, l+b+l2+tails[(i+j+k)%len(tails)], "1 or "+l+b+l2[:1]+tails[(i+j+k+1)%len(tails)])
				}
			}
		}
	})
	return glueList
}

var nsAttrOnce sync.Once
var nsAttrList []string

// htmlNsAttrCases: every attribute, event and tag name of the live tables
// behind a namespace-like prefix or in front of a suffix, with a value that
// would make the bare name fire.
func htmlNsAttrCases() []string {
	nsAttrOnce.Do(func() {
		pres := []string{"xlink:", "xml:", "xmlns:", "svg:", "x:", "data-", "aria-", "ng-", "v-on:", "@", ":", "_", "on", "xlink", "xmlns", "XLINK:", "xl\x00ink:", "html:", "ev:", "-"}
		sufs := []string{":x", "-x", ".x", ":", "_", "s", "2"}
		val := func(ty int) string { return []string{"x", "x", "javascript:x", "x", "onclick"}[ty%5] }
		add := func(name string, ty int) {
			low := strings.ToLower(name)
			for i, p := range pres {
				q := []string{"", "'", "\""}[i%3]
				nsAttrList = append(nsAttrList, "<a "+p+low+"="+q+val(ty)+q+">", " "+p+name+"="+val(ty)+" ")
			}
			for _, sf := range sufs {
				nsAttrList = append(nsAttrList, "<a "+low+sf+"="+val(ty)+">")
			}
		}
		for _, a := range li.VerifBlacks() {
			add(a.Name, a.Type)
		}
		for i, e := range li.VerifBlackEvents() {
			if i%8 == 0 {
				add("on"+e.Name, e.Type)
			}
		}
		for _, t := range li.VerifBlackTags() {
			low := strings.ToLower(t)
			for _, p := range pres {
				nsAttrList = append(nsAttrList, "<"+p+low+">", "</"+p+low+" x>")
			}
			for _, sf := range sufs {
				nsAttrList = append(nsAttrList, "<"+low+sf+">")
			}
		}
	})
	return nsAttrList
}

var encAtkOnce sync.Once
var encAtkList []string

// sqlEncodedAttackCases: injection strings in the transport encodings a
// decoder in front of the scanner might undo (character references, URL and
// double URL encoding, \u / \x escapes, character-code lists, base64, hex).
// The scanner must read the bytes it is given.
func sqlEncodedAttackCases() []string {
	encAtkOnce.Do(func() {
		atks := []string{"1' or '1'='1", "1 or 1=1", "1' or 1=1 -- ", "1 union select 1,2,3 -- ", "' or 'a'='a", "1\" or 1=1 #", "admin'--", "1; drop table t", "x' and sleep(5) -- ", "1 /*!50000union*/ select 1", "-1' union select load_file('/etc/passwd')--"}
		pct := func(v string, all bool) string {
			var b strings.Builder
			for i := 0; i < len(v); i++ {
				c := v[i]
				if !all && (c >= 'a' && c <= 'z' || c >= 'A' && c <= 'Z' || c >= '0' && c <= '9') {
					b.WriteByte(c)
				} else {
					b.WriteString("%" + strings.ToUpper(hexByte(c)))
				}
			}
			return b.String()
		}
		codes := func(v, sep string, base int) string {
			var parts []string
			for i := 0; i < len(v); i++ {
				parts = append(parts, strconv.FormatInt(int64(v[i]), base))
			}
			return strings.Join(parts, sep)
		}
		for _, a := range atks {
			encAtkList = append(encAtkList,
				strings.NewReplacer("'", "&#39;", "\"", "&#34;", "=", "&#61;").Replace(a), strings.NewReplacer("'", "&#x27;", "\"", "&#x22;").Replace(a), strings.NewReplacer("'", "&apos;", "\"", "&quot;").Replace(a),
				strings.NewReplacer("'", "&#39", "\"", "&#34").Replace(a), strings.NewReplacer("'", "&#0000039;", " ", "&#32;").Replace(a),
				pct(a, false), pct(pct(a, false), false), pct(a, true), strings.ReplaceAll(pct(a, false), "%", "%u00"),
				strings.NewReplacer("'", "\\u0027", "\"", "\\u0022", " ", "\\u0020").Replace(a), strings.NewReplacer("'", "\\x27", "\"", "\\x22").Replace(a), strings.NewReplacer("'", "\\'", "\"", "\\\"").Replace(a),
				strings.NewReplacer("'", "\uff07", "\"", "\uff02", "=", "\uff1d").Replace(a), strings.NewReplacer("'", "\u2019", "\"", "\u201d").Replace(a), strings.NewReplacer("'", "\xc0\xa7", "\"", "\xc0\xa2").Replace(a),
				codes(a, " ", 10), codes(a, ",", 10), "char("+codes(a, ",", 10)+")", "chr("+codes(a, ")||chr(", 10)+")", codes(a, " ", 16), "0x"+hexString(a), hexString(a), "x'"+hexString(a)+"'",
				base64.StdEncoding.EncodeToString([]byte(a)), base64.RawURLEncoding.EncodeToString([]byte(a)), "from_base64('"+base64.StdEncoding.EncodeToString([]byte(a))+"')",
				strings.NewReplacer(" ", "+").Replace(a), strings.NewReplacer(" ", "%20", "'", "%27").Replace(a), strings.NewReplacer("'", "%2527").Replace(a), strings.NewReplacer("'", "%c0%a7").Replace(a), strings.NewReplacer("'", "%EF%BC%87").Replace(a))
		}
	})
	return encAtkList
}

func hexByte(c byte) string {
	return string([]byte{"0123456789abcdef"[c>>4], "0123456789abcdef"[c&15]})
}

func hexString(v string) string {
	var b strings.Builder
	for i := 0; i < len(v); i++ {
		b.WriteString(hexByte(v[i]))
	}
	return b.String()
}

var dialectOnce, elementsOnce sync.Once
var dialectList, elementsList []string

func corpusWords(file string) []string {
	data, err := os.ReadFile(filepath.Join(verifDir(), "corpus", file))
	if err != nil {
		return nil
	}
	var out []string
	for _, l := range strings.Split(string(data), "\n") {
		l = strings.TrimSpace(l)
		if l != "" && !strings.HasPrefix(l, "#") {
			out = append(out, l)
		}
	}
	return out
}

// sqlDialectCases: ~800 words of SQL dialects (reserved words, pseudo
// columns, system objects, functions - most of them not in the table) in the
// positions where a new lexer or folding rule would look at them: alone,
// behind $ @ @@ : [ and a back quote, in front of ( and . and a quote, with
// the construct cut off at the end of the input.
func sqlDialectCases() []string {
	dialectOnce.Do(func() {
		frames := []string{"%s", "$%s", "@%s", "@@%s", "%s(", "%s(1", "1 %s(", "%s(a.b= 1", "%s '", "select %s", "select $%s", "%s.", "1 %s", "1 %s 1", "%s()", "%s (", "1 or %s 1=1", ";%s", "%s;", "[%s", "`%s", ":%s", "%s::", "1 %s 'a", "%s 1,2 --", "{%s", "%s x 'y'", "1 union select %s(1),2", "exec %s 'a'", "1 --%s"}
		for i, w := range corpusWords("sqlwords.txt") {
			for j, f := range frames {
				sp := w
				switch (i + j) % 3 {
				case 1:
					sp = strings.ToUpper(w)
				case 2:
					sp = strings.ToUpper(w[:1]) + w[1:]
				}
				dialectList = append(dialectList, strings.Replace(f, "%s", sp, 1))
			}
		}
	})
	return dialectList
}

// htmlElementCases: every element name of HTML, SVG and MathML as a start tag,
// end tag and host of attributes, and in front of a vector (a tokenizer that
// learns an element's content model changes what follows it).
func htmlElementCases() []string {
	elementsOnce.Do(func() {
		frames := []string{"<%s>", "<%s ", "<%s x=y>", "</%s>", "<%s/>", "<%s><script>", "<p><%s><a href=javascript:x>", "<%s>t</%s ><svt>", "<%s to=javascript:x>", "<%s href=javascript:x>", "<%s onclick=x>", "<%s", "</%s x='>'><xss>", "<%s><%s><embed>",
			"<%s>' onerror='x", "<%s title=\"<svt>\">", "<%s values=data:x>", "'><%s xmlns=x>"}
		for i, w := range corpusWords("htmlelements.txt") {
			for j, f := range frames {
				sp := w
				if (i+j)%3 == 1 {
					sp = strings.ToUpper(w)
				}
				elementsList = append(elementsList, strings.ReplaceAll(f, "%s", sp))
			}
		}
	})
	return elementsList
}

var proseOnce sync.Once
var proseList []string

// sqlProseCases: English phrases in which a word of SQL stands next to
// ordinary nouns and adjectives (student union, order by phone, drop table
// tennis): exceptions written for "obvious prose" live here.
func sqlProseCases() []string {
	proseOnce.Do(func() {
		before := []string{"credit", "student", "trade", "european", "labor", "soviet", "customs", "western", "rugby", "state", "the", "a", "my", "please", "first", "best", "new", "our", "big", "no"}
		kws := []string{"union", "select", "order by", "group by", "table", "drop table", "update", "delete from", "insert into", "where", "having", "like", "between", "case", "null", "join", "limit", "set", "values", "into", "from", "all", "and", "or", "not", "in", "is", "as", "on", "exec", "declare", "if", "end", "begin", "go", "print", "while", "merge", "create", "alter"}
		after := []string{"", " (north)", " -- best rates", " members", " 1", " station, platform 2", " 'quoted'", " #1", "; thanks", " / trade", " x=y", ", inc."}
		for i, b := range before {
			for j, k := range kws {
				for l, a := range after {
					if (i+j+l)%3 != 0 {
						continue
					}
					proseList = append(proseList, b+" "+k+a, strings.ToUpper(b[:1])+b[1:]+" "+strings.ToUpper(k[:1])+k[1:]+a)
				}
			}
		}
	})
	return proseList
}

var doubledMu sync.Mutex
var doubledMemo = map[int][]string{}

// doubledCases: every seed twice, joined the ways a parameter sent twice is
// joined (comma, ampersand, nothing, blank, semicolon, line feed): a value made
// of two identical halves must be read as what it is.
func doubledCases(seeds []string) []string {
	doubledMu.Lock()
	defer doubledMu.Unlock()
	if l, ok := doubledMemo[len(seeds)]; ok {
		return l
	}
	var out []string
	for _, s := range seeds {
		if len(s) < 4 || len(s) > 120 {
			continue
		}
		for _, j := range []string{",", "&", "", " ", ";", "\n", ", ", "&x="} {
			out = append(out, s+j+s)
		}
	}
	doubledMemo[len(seeds)] = out
	return out
}

var tokTailOnce sync.Once
var tokTailMemo []string

// sqlTokTailCases: every token form followed by every two-atom tail, as the
// very last bytes of the input and in front of " 1": a scanner for one token
// kind that looks one or two bytes past a byte it has just accepted (a line
// continuation, an escape, an exponent sign) runs off the end only there.
func sqlTokTailCases() []string {
	tokTailOnce.Do(func() {
		forms := []string{"0x41", "0X1F", "0b1", "0B10", "1", "1.", "1.5", "1e5", "1e+", "1E-5", "1f", "1d", ".1", "x'1f'", "b'01'", "n'a'", "e'a'", "u&'a'", "q'(a)'", "nq'[a]'",
			"$$a$$", "$t$a$t$", "$1.00", "@a", "@@a", "@`a`", "[a]", "`a`", "'a'", "\"a\"", "''", "'a''b'", "/**/", "/*a*/", "/*!1", "--x\n", "#x\n", "a", "a.b", "select", "sp_password",
			"\\N", "{a b}", "?", "::", "<=>"}
		tails := []string{"\\", "\r", "\n", "\t", " ", "\x00", "'", "\"", "`", "/", "*", "-", "#", "$", "@", ".", "e", "x", "0", "1", "(", ")", "[", "{", ":", ";", "=", "&", "|", "+", "\x80", "\xa0", "_"}
		// digit groups: a literal continued by 1-4 groups behind a separator some dialect allows
		for _, base := range []string{"0x", "0X", "0b", "0B", "", "1e", "1.", ".", "$", "x'", "b'"} {
			for _, sep := range []string{"_", "'", ",", ".", "e", "-", "+", " ", "\\\n", "__"} {
				for _, d := range []string{"1", "a", "0", "f", "12", "G"} {
					t := base + d
					for g := 1; g <= 4; g++ {
						t += sep + d
						tokTailMemo = append(tokTailMemo, t, t+" 1", "select "+t, "1 or "+t+sep, t+"'")
					}
				}
			}
		}
		for _, f := range forms {
			for _, a := range tails {
				for _, b := range tails {
					tokTailMemo = append(tokTailMemo, f+a+b, f+a+b+" 1")
				}
			}
		}
	})
	return tokTailMemo
}

var tagTailOnce sync.Once
var tagTailMemo []string

// htmlTagTailCases: an element that browsers read as raw text / RCDATA / foreign
// content (and a few ordinary ones), opened four ways, then an end tag of the
// same name cut off or complete, with one NUL at every position of the name and
// in either case, as the very last bytes and in front of five tails: a matcher
// for "the end tag of the element just opened" runs off the end only there.
func htmlTagTailCases() []string {
	tagTailOnce.Do(func() {
		names := []string{"title", "textarea", "script", "style", "xmp", "iframe", "noembed", "noframes", "noscript", "plaintext", "svg", "math", "a", "p", "template", "select", "option", "listing", "comment", "xml"}
		for _, n := range names {
			var ends []string
			for _, nm := range []string{n, asciiUpper(n), n[:len(n)-1], n + n[:1]} {
				ends = append(ends, nm)
				for i := 0; i <= len(nm); i++ {
					ends = append(ends, nm[:i]+"\x00"+nm[i:])
				}
			}
			for _, open := range []string{"<" + n + ">", "<" + n + " a=b>", "<" + n + "/>", "<" + asciiUpper(n) + " >"} {
				for _, body := range []string{"", "x", "<", "&", "</x>"} {
					for _, e := range ends {
						for _, tail := range []string{"", ">", " ", "/", "\x00", " a=b>"} {
							tagTailMemo = append(tagTailMemo, open+body+"</"+e+tail)
						}
					}
				}
			}
		}
	})
	return tagTailMemo
}
