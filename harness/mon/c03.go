package mon

import (
	"fmt"
	"strings"

	li "github.com/corazawaf/libinjection-go"

	"verif/harness/core"
)

// G_sqli — the canonical attack grammar of C03:
//
//	attack  := prefix close* SEP payload tail
//	prefix  := numeric | value' | value"          (the quoting context)
//	close   := ')'
//	payload := one of the families below; '_' marks a separator gap, 'Q' the
//	           context's quote character, letters are subject to case masks
//	SEP     := SQL white-space byte or inline comment
//	tail    := nothing or a trailing comment style
//
// The grammar is data fixed at construction time. It was calibrated once on
// the repaired tree: a (payload, prefix kind, tail) production was dropped
// when any of its expansions was undetected; the drops are listed in
// g03Dropped with the reason. The check only expands and tests.

type g03Prefix struct {
	text  string
	quote byte // 0 numeric, '\'' or '"'
}

var g03Prefixes = []g03Prefix{
	{"1", 0}, {"-1", 0}, {"1.0", 0}, {"0", 0},
	{"x'", '\''}, {"1'", '\''}, {"'", '\''}, {"admin'", '\''},
	{"x\"", '"'}, {"1\"", '"'}, {"\"", '"'},
}

var g03Closers = []string{"", ")", "))"}

var g03Seps = []string{" ", "\t", "\n", "\v", "\f", "\r", "\xa0", "/**/", "/*x*/", "  ", " \t", "\n/**/", "\x00", "\x00 "}

type g03Payload struct {
	family string
	tmpl   string
}

var g03Payloads = []g03Payload{
	// boolean tautologies
	{"taut", "or_1=1"}, {"taut", "or_1=1_"}, {"taut", "or_2>1"}, {"taut", "or_Q1Q=Q1"}, {"taut", "or_QaQ=Qa"}, {"taut", "and_1=1"}, {"taut", "and_QaQ=Qa"},
	{"taut", "or_1_like_1"}, {"taut", "or_not_0"}, {"taut", "||_1=1"}, {"taut", "or_1=1_or_1=1"}, {"taut", "or_true"}, {"taut", "or_1<>2"},
	{"taut", "or_1_in_(1)"}, {"taut", "or_1_between_0_and_2"}, {"taut", "or_1_is_not_null"}, {"taut", "or_QQ=Q"}, {"taut", "and_1_rlike_1"}, {"taut", "xor_1=1"},
	{"taut", "or_(1=1)"}, {"taut", "or_(1)=(1)"}, {"taut", "&&_1=1"},
	// UNION SELECT extraction
	{"union", "union_select_1"}, {"union", "union_select_1,2"}, {"union", "union_select_1,2,3"}, {"union", "union_select_null,null,null,null"},
	{"union", "union_all_select_1"}, {"union", "union_all_select_null,null"}, {"union", "union_select_QaQ,QbQ"}, {"union", "union_select_@@version"},
	{"union", "union_select_user()"}, {"union", "union_select_1,user(),3"}, {"union", "union_all_select_1,@@version,QaQ"}, {"union", "union_select_1_from_t"},
	{"union", "union_select_a_from_t"}, {"union", "union_select_*_from_t"}, {"union", "union_distinct_select_1"}, {"union", "union_select_null,concat(a,b)_from_t"},
	{"union", "union_(select_1)"}, {"union", "union_select_1,2_from_information%schema.tables"},
	// stacked statements
	{"stack", ";_drop_table_t"}, {"stack", ";drop_table_t"}, {"stack", ";_select_sleep(5)"}, {"stack", ";_exec_xp%cmdshell_QxQ"}, {"stack", ";_waitfor_delay_Q0:0:5Q"},
	{"stack", ";_if_1=1_select_1"}, {"stack", ";_insert_into_t_values(1)"}, {"stack", ";_update_t_set_a=1"}, {"stack", ";_delete_from_t"}, {"stack", ";_shutdown"},
	{"stack", ";_exec_master..xp%cmdshell_QxQ"}, {"stack", ";_declare_@a_int"}, {"stack", ";_select_pg%sleep(5)"}, {"stack", ";_truncate_table_t"},
	// time / error based function calls
	{"func", "and_sleep(5)"}, {"func", "or_sleep(5)"}, {"func", "or_benchmark(9,md5(1))"}, {"func", "and_extractvalue(1,concat(0x7e,version()))"}, {"func", "or_pg%sleep(5)"},
	{"func", "and_updatexml(1,concat(0x7e,user()),1)"}, {"func", "and_1=sleep(5)"}, {"func", "and_(select_sleep(5))"}, {"func", "or_1=(select_count(*)_from_t)"},
	{"func", "and_ascii(substring(user(),1,1))>1"}, {"func", "and_if(1=1,sleep(5),0)"}, {"func", "and_1=convert(int,@@version)"}, {"func", "procedure_analyse()"},
	{"func", "and_exists(select_1)"}, {"func", "and_load%file(QxQ)"}, {"func", "waitfor_delay_Q0:0:5Q"}, {"func", "and_length(database())>0"},
	// payloads whose string arguments use a fixed quote character whatever the context (S = ', D = ")
	{"stack", ";_exec_xp%cmdshell_SdirS"}, {"stack", ";_waitfor_delay_S0:0:5S"}, {"func", "and_sleep(S5S)"}, {"func", "and_benchmark(5000000,md5(SaS))"}, {"union", "union_select_SaS,2"}, {"taut", "or_SaS=SaS"},
	{"union", "union_select_DaD,2"}, {"taut", "or_DaD=DaD"}, {"func", "and_load%file(DxD)"}, {"func", "and_extractvalue(1,concat(S~S,version()))"},
	// a separator between a function name and its parenthesis
	{"func", "and_sleep_(5)"}, {"func", "or_sleep_(5)"}, {"func", "or_benchmark_(9,md5(1))"}, {"func", "and_if_(1=1,sleep(5),0)"}, {"stack", ";_select_sleep_(5)"}, {"func", "or_pg%sleep_(5)"}, {"func", "and_1=sleep_(5)"}, {"union", "union_select_user_()"},
	// the function names that are words until an opening parenthesis follows (CURRENT_USER, USER_NAME ...)
	{"union", "union_select_current%user()"}, {"union", "union_select_1,user%name(),3"}, {"func", "and_length(current%user())>0"}, {"func", "and_ascii(substring(user%name(),1,1))>1"},
	{"taut", "or_current%user()=current%user()"}, {"union", "union_select_user%id(),current%timestamp()"}, {"func", "and_1=convert(int,user%name())"}, {"func", "or_current%date()=current%date()"}, {"union", "union_select_password(1),localtime()"},
	// T-SQL IF after a statement separator
	{"stack", ";_if_(1=1)_waitfor_delay_Q0:0:5Q"}, {"stack", ";if(1=1)_drop_table_t"}, {"stack", ";_if_exists(select_1)_drop_table_t"}, {"stack", ";_if_1=1_drop_table_t"},
	// comment truncation (quoted prefixes only)
	{"trunc", ""},
}

var g03Tails = []string{"", "--", "-- ", "-- x", "#", "/*", ";--", ";", " --", " #", "-- -", "--+"}

// g03Dropped lists productions removed by calibration:
// key = tmpl @@ prefix (exact prefix+closers, or kind n/s/d, or *) @@ tail (or *).
var g03Dropped = map[string]string{}

func g03Kind(p g03Prefix) string {
	switch p.quote {
	case '\'':
		return "s"
	case '"':
		return "d"
	}
	return "n"
}

func g03IsDropped(pay g03Payload, pre g03Prefix, closer, tail string) bool {
	const sep = " @@ "
	for _, k := range []string{
		pay.tmpl + sep + pre.text + closer + sep + tail,
		pay.tmpl + sep + pre.text + closer + sep + "*",
		pay.tmpl + sep + g03Kind(pre) + sep + tail,
		pay.tmpl + sep + g03Kind(pre) + sep + "*",
		pay.tmpl + sep + "*" + sep + tail,
		pay.tmpl + sep + "*" + sep + "*",
	} {
		if _, ok := g03Dropped[k]; ok {
			return true
		}
	}
	return false
}

// g03Values: what the application's value looked like before the attacker's
// quote. In the quoted reading all of it is the inside of one string token, so
// the calibration done with "x" carries over; none contains the context's own
// quote or ends in an odd run of backslashes. (idx 5 is rendered with the other quote kind.)
var g03Values = []string{"John Smith", "2024-01-02 10:00:00", "item #5", "C#", "a--b", "5\x01 disk", "a,b;c(d)", "100%", "x/*y", "x*/y", "n\xc3\xa9e", "select", "1 or 1", "a b c d e f g h", "aaaaaaaaaaaaaaaaaaaaaaaaaaaaaaaaaaaaaaaaaaaaaaaa", "-- x", "1-- -", "{x}", "@a", "$1.50", "a\nb", "0x1f", "x y`z", "[q]",
	// values ending in an even run of backslashes: the quote behind them still closes the string
	"C:\\\\", "x" + strings.Repeat("\\", 30), "x" + strings.Repeat("\\", 32), "x" + strings.Repeat("\\", 34), strings.Repeat("\\", 64), "a" + strings.Repeat("\\", 1024)}

// white-space bytes that may stand for the blank inside a tail without
// changing where the trailing comment ends (no line feed)
var g03TailBlanks = []string{" ", "\t", "\v", "\f", "\r", "\xa0", "\x00"}

// render options beyond separators and case
type g03Opt struct {
	value      int  // -1: the prefix as written; else index into g03Values (quoted "x"/"admin" prefixes only)
	tailBlank  int  // index into g03TailBlanks
	hugeValue  bool // the quoted value before the breakout quote is stretchLen bytes long
	closers    int  // > 0: this many ')' instead of the member's "))" (close* of the grammar)
	stretchAt  int  // gap whose separator is repeated up to stretchLen bytes (-1: none)
	stretchLen int
}

var g03NoOpt = g03Opt{value: -1, stretchAt: -1}

var g03StretchLens = []int{29, 31, 32, 33, 34, 35, 37, 63, 64, 65, 255, 256, 257, 1023, 1024, 1025, 2047, 2048, 2049, 4095, 4096, 4097, 8193, 16385, 65536, 65537}

func g03ValueApplies(pre g03Prefix) bool {
	return pre.quote != 0 && (strings.HasPrefix(pre.text, "x") || strings.HasPrefix(pre.text, "admin"))
}

type g03Member struct {
	pre    int
	closer int
	pay    int
	tail   int
}

var g03Members []g03Member

func init() {
	loadG03Drops()
	for pi, pre := range g03Prefixes {
		for ci, cl := range g03Closers {
			for yi, pay := range g03Payloads {
				for ti, tail := range g03Tails {
					if pay.family == "trunc" {
						// comment truncation: a value (quoted or numeric) + comment tail only
						if tail == "" || tail == ";" {
							continue
						}
					}
					if g03IsDropped(pay, pre, cl, tail) {
						continue
					}
					g03Members = append(g03Members, g03Member{pi, ci, yi, ti})
				}
			}
		}
	}
}

// g03Build renders one member. sepAt returns the separator for gap i;
// mask assigns the case of letters outside quoted literals.
func g03Build(m g03Member, sepAt func(i int) string, mask uint64) string {
	return g03BuildOpt(m, sepAt, mask, g03NoOpt)
}

func g03BuildOpt(m g03Member, sepAt0 func(i int) string, mask uint64, o g03Opt) string {
	pre := g03Prefixes[m.pre]
	pay := g03Payloads[m.pay]
	q := pre.quote
	if q == 0 {
		q = '\''
	}
	sepAt := sepAt0
	if o.stretchAt >= 0 {
		sepAt = func(i int) string {
			sp := sepAt0(i)
			if i == o.stretchAt && len(sp) > 0 && o.stretchLen > len(sp) {
				if strings.HasPrefix(sp, "/*") && o.stretchLen%2 == 1 {
					// one long inline comment instead of many short ones
					return "/*" + strings.Repeat("a", o.stretchLen-4) + "*/"
				}
				return strings.Repeat(sp, o.stretchLen/len(sp))
			}
			return sp
		}
	}
	var b strings.Builder
	if o.value >= 0 && g03ValueApplies(pre) {
		v := g03Values[o.value%len(g03Values)]
		if o.hugeValue && o.stretchLen > 0 {
			v = strings.Repeat("a", o.stretchLen)
		}
		other := "\""
		if pre.quote == '"' {
			other = "'"
		}
		b.WriteString(strings.ReplaceAll(v, "\x01", other))
		b.WriteByte(pre.quote)
	} else {
		b.WriteString(pre.text)
	}
	if o.closers > 0 && g03Closers[m.closer] == "))" {
		b.WriteString(strings.Repeat(")", o.closers))
	} else {
		b.WriteString(g03Closers[m.closer])
	}
	gap := 0
	letter := uint(0)
	tm := pay.tmpl
	if tm != "" {
		b.WriteString(sepAt(gap))
		gap++
	}
	inLit := false
	for i := 0; i < len(tm); i++ {
		c := tm[i]
		switch {
		case c == '_':
			b.WriteString(sepAt(gap))
			gap++
		case c == '%':
			b.WriteByte('_')
		case c == 'Q':
			b.WriteByte(q)
			inLit = !inLit
		case c == 'S' && isUpperMarker(tm, i):
			b.WriteByte('\'')
			inLit = !inLit
		case c == 'D' && isUpperMarker(tm, i):
			b.WriteByte('"')
			inLit = !inLit
		case !inLit && (c >= 'a' && c <= 'z'):
			if mask>>(letter&63)&1 == 1 {
				c -= 0x20
			}
			letter++
			b.WriteByte(c)
		default:
			b.WriteByte(c)
		}
	}
	tail := g03Tails[m.tail]
	if o.tailBlank > 0 {
		tail = strings.ReplaceAll(tail, " ", g03TailBlanks[o.tailBlank%len(g03TailBlanks)])
	}
	b.WriteString(tail)
	return b.String()
}

// templates are lower-case; the upper-case letters S, D, Q are markers
func isUpperMarker(tm string, i int) bool { return true }

var g03FixedMasks = []uint64{0, ^uint64(0), 0xAAAAAAAAAAAAAAAA, 0x5555555555555555}

// g03WordMasks: for every word (maximal run of case-assignable letters) of a
// template, masks that re-case only that word: all 2^k assignments for words
// of up to 4 letters, first-upper / last-upper / alternating / all-upper for
// longer ones. Case folding lost on one keyword shows here even when the
// all-lower and all-upper spellings still work.
func g03WordMasks(tm string) []uint64 {
	var out []uint64
	letter := uint(0)
	inLit := false
	i := 0
	for i < len(tm) {
		c := tm[i]
		if c == 'Q' || c == 'S' || c == 'D' {
			inLit = !inLit
			i++
			continue
		}
		if inLit || !(c >= 'a' && c <= 'z') {
			i++
			continue
		}
		start := letter
		n := uint(0)
		for i < len(tm) && tm[i] >= 'a' && tm[i] <= 'z' {
			i++
			n++
			letter++
		}
		if start+n > 64 {
			break
		}
		if n <= 4 {
			for m := uint64(1); m < 1<<n; m++ {
				out = append(out, m<<start)
			}
		} else {
			out = append(out, uint64(1)<<start, uint64(1)<<(start+n-1), (uint64(0xAAAAAAAAAAAAAAAA)&((1<<n)-1))<<start, ((uint64(1)<<n)-1)<<start, (uint64(0x5555555555555555)&((1<<n)-1))<<start)
		}
	}
	return out
}

// genC03 emits attack strings; meta = "family|tmpl|prefix|tail".
func genC03(w *core.Worker, u core.Unit, emit func(s string, meta string)) {
	nm := uint64(len(g03Members))
	if nm == 0 {
		return
	}
	r := core.NewRng(w.R.Seed, "g03", fmt.Sprint(u.Lo))
	g03InitWordCases()
	g03InitValueCases()
	g03InitCountCases()
	for i := u.Lo; i < u.Hi; i++ {
		m := g03Members[i%nm]
		round := i / nm
		var s string
		nsep := uint64(len(g03Seps))
		nmask := uint64(len(g03FixedMasks))
		exh1 := nm * nsep * nmask
		exh2 := exh1 + uint64(len(g03WordCases))
		exh3 := exh2 + uint64(len(g03ValueCases))
		if i >= exh3 && i < exh3+uint64(len(g03CountCases)) {
			// exhaustive part 4: one gap holds an exact number of comment tokens
			// around the limits of 8- and 16-bit counters
			cc := g03CountCases[i-exh3]
			m = g03Members[cc.m]
			s = g03BuildOpt(m, func(g int) string {
				if g == cc.gap {
					return strings.Repeat(g03CountSeps[cc.sep], cc.n)
				}
				return " "
			}, g03FixedMasks[int(i)%len(g03FixedMasks)], g03NoOpt)
		} else if i >= exh2 && i < exh3 {
			// exhaustive part 3: every value text x every tail-blank for the quoted "x"/"admin" prefixes
			vc := g03ValueCases[i-exh2]
			m = g03Members[vc.m]
			sep := g03Seps[int(i)%len(g03Seps)]
			s = g03BuildOpt(m, func(int) string { return sep }, g03FixedMasks[int(i/7)%len(g03FixedMasks)], g03Opt{value: vc.value, tailBlank: vc.blank, stretchAt: -1})
		} else if i >= exh1 && i < exh1+uint64(len(g03WordCases)) {
			// exhaustive part 2: one word of the payload re-cased, the rest lower-case
			wc := g03WordCases[i-exh1]
			m = g03Members[wc.m]
			sep := g03Seps[int(i)%3]
			s = g03Build(m, func(int) string { return sep }, wc.mask)
		} else if round < nsep*nmask {
			// exhaustive part: one separator per string x fixed masks
			sep := g03Seps[round%nsep]
			s = g03Build(m, func(int) string { return sep }, g03FixedMasks[round/nsep])
		} else {
			// sampled part: independent separator per gap, random mask
			o := g03NoOpt
			if r.Intn(2) == 0 {
				o.value = r.Intn(len(g03Values))
			}
			if r.Intn(2) == 0 {
				o.tailBlank = r.Intn(len(g03TailBlanks))
			}
			if g03Closers[m.closer] == "))" && r.Intn(4) == 0 {
				o.closers = []int{3, 4, 5, 8, 31, 64, 255, 1000, 2047, 2048, 2049, 4097, 16385, 65537}[r.Intn(14)]
			}
			if r.Intn(8) == 0 {
				o.stretchAt = r.Intn(4)
				o.stretchLen = g03StretchLens[r.Intn(len(g03StretchLens))]
			}
			if i%40000 == 39999 {
				// request-body sized: one separator (or the value before the quote)
				// grown beyond 12.5 MiB
				o.stretchAt = int(i/40000) % 2
				o.stretchLen = []int{13107201, 16<<20 + 1}[int(i/80000)%2]
				if int(i/40000)%3 == 2 {
					o.hugeValue = true
					o.value = 0
					o.stretchAt = -1
				}
			}
			s = g03BuildOpt(m, func(int) string { return g03Seps[r.Intn(len(g03Seps))] }, r.U64(), o)
		}
		pay := g03Payloads[m.pay]
		emit(s, pay.family+"|"+pay.tmpl+"|"+g03Prefixes[m.pre].text+g03Closers[m.closer]+"|"+g03Tails[m.tail])
	}
}

var g03WordCases []struct {
	m    int
	mask uint64
}

func g03InitWordCases() {
	if g03WordCases != nil {
		return
	}
	cache := map[int][]uint64{}
	for mi, m := range g03Members {
		wm, ok := cache[m.pay]
		if !ok {
			wm = g03WordMasks(g03Payloads[m.pay].tmpl)
			cache[m.pay] = wm
		}
		// every closer/tail combination would multiply the count; word masks
		// are applied to one closer and two tails per (prefix, payload)
		if m.closer != 0 || m.tail > 1 {
			continue
		}
		for _, k := range wm {
			g03WordCases = append(g03WordCases, struct {
				m    int
				mask uint64
			}{mi, k})
		}
	}
}

var g03ValueCases []struct{ m, value, blank int }

func g03InitValueCases() {
	if g03ValueCases != nil {
		return
	}
	k := 0
	for mi, m := range g03Members {
		if !g03ValueApplies(g03Prefixes[m.pre]) {
			continue
		}
		for vi := range g03Values {
			// every (member, value); the tail blank rotates
			g03ValueCases = append(g03ValueCases, struct{ m, value, blank int }{mi, vi, k % len(g03TailBlanks)})
			k++
		}
	}
}

// g03CountCases: one separator is an exact number of separate comment tokens
// (each counted by the scanner's statistics and dropped by the folder), the
// number taken from the windows around 2^8 and 2^16: a statistic kept in a
// narrower integer reads 0, 2 or 3 there and the whitelist exceptions that ask
// for "exactly three tokens" or "no comment seen" apply to a long attack.
var g03CountCases []struct{ m, gap, sep, n int }

var g03CountSeps = []string{"/**/", "/*x*/ "}

func g03InitCountCases() {
	if g03CountCases != nil {
		return
	}
	var counts []int
	for _, c := range []int{256, 65536} {
		for d := -6; d <= 4; d++ {
			counts = append(counts, c+d)
		}
	}
	k := 0
	for mi, m := range g03Members {
		// a spread of members: every prefix kind and family, both with and without a tail
		if mi%211 != 0 && !(g03Prefixes[m.pre].text == "1" && g03Closers[m.closer] == "" && mi%17 == 0) {
			continue
		}
		for j, n := range counts {
			g03CountCases = append(g03CountCases, struct{ m, gap, sep, n int }{mi, (k + j) % 2, (k/2 + j/2) % len(g03CountSeps), n})
		}
		k++
	}
}

func g03ExhaustiveCount() uint64 {
	g03InitWordCases()
	g03InitValueCases()
	g03InitCountCases()
	return uint64(len(g03Members))*uint64(len(g03Seps))*uint64(len(g03FixedMasks)) + uint64(len(g03WordCases)) + uint64(len(g03ValueCases)) + uint64(len(g03CountCases))
}

// C03 — canonical SQL injection families are detected in every quoting context.
func c03() *core.Check {
	return &core.Check{
		ID: "C03",
		Rule: "members of the fixed attack grammar G_sqli (prefix x closers x separator x payload family x case mask x tail; productions dropped by the one-time calibration are listed in grammar/g03_dropped.txt): exhaustively with one separator per string and four fixed case masks, then every word of the payload re-cased on its own (all 2^k assignments for words up to 4 letters), then every quoted \"x\"/\"admin\" member with each of 30 realistic value texts (incl. values ending in even runs of 2-1024 backslashes) before the quote (dates, names with blanks, values containing # -- /* or the other quote kind) and the blank of the trailing comment replaced by every other white-space byte, then sampled with an independent separator per gap, random masks, random value text, 3-65537 closing parentheses on a quarter of the \"))\" members, and one separator in eight repeated - or, for comment separators, one single long comment - up to a threshold length (29-65537 bytes); a spread of members with one gap holding an exact number of separate comment tokens from the windows 250-260 and 65530-65540 (statistics kept in 8- or 16-bit integers wrap there). Oracle: IsSQLi = true. " +
			"Non-trivial = every member; distinct by string.",
		Plan: func(tier string, seed uint64) []core.Unit {
			total := g03ExhaustiveCount()
			if tier == "thorough" {
				total += 60000000
			} else {
				total += 300000
			}
			var us []core.Unit
			for lo := uint64(0); lo < total; lo += 20000 {
				hi := lo + 20000
				if hi > total {
					hi = total
				}
				us = append(us, core.Unit{Gen: "g03", Lo: lo, Hi: hi})
			}
			return us
		},
		Gen: func(w *core.Worker, u core.Unit, emit func(core.Case)) {
			genC03(w, u, func(s, meta string) { emit(core.Case{In: s, S: meta}) })
		},
		One: func(w *core.Worker, c core.Case) {
			w.Eval(1)
			// a harmless value is scanned in between (16 workers do this at once), and
			// the attack is asked twice: the answer must not depend on what else the
			// process is being asked
			n, _ := w.Local["c03n"].(int)
			w.Local["c03n"] = n + 1
			li.IsSQLi(c03Benign[n%len(c03Benign)])
			b, f := li.IsSQLi(c.In)
			if b && len(c.In) <= 4096 {
				b, f = li.IsSQLi(c.In)
			}
			if !b {
				w.Violate("attack-not-detected", "IsSQLi returned false for a member of the attack grammar ("+c.S+")\n"+explainCascadeOf(c.In))
				return
			}
			w.Nontrivial(c.In)
			w.Observe("fingerprints_fired", f)
			if i := strings.IndexByte(c.S, '|'); i > 0 {
				w.Observe("families", c.S[:i])
			}
			w.Sample(c.In)
		},
		Explain:     func(c core.Case) string { return explainCascadeOf(c.In) },
		Assumptions: []string{"G_sqli is finite-branching and fixed; it was calibrated once on the repaired tree, never at check time", "a deleted fingerprint that no grammar member maps to is C20's business"},
	}
}

var c03Benign = []string{"hello world", "42", "john.smith@example.com", "2021-01-01", "a perfectly ordinary sentence with nothing in it", "page=3&sort=name", "", "O'Neil"}

func explainCascadeOf(s string) string {
	b, f := li.IsSQLi(s)
	r := cascade(s)
	return fmt.Sprintf("IsSQLi = (%v,%q)\n%s", b, f, explainCascade(&r))
}
