package mon

import (
	"fmt"
	"sort"
	"strconv"
	"strings"

	li "github.com/corazawaf/libinjection-go"

	"verif/harness/core"
	"verif/harness/gen"
)

// First-terminator oracle for SQL literals, transcribed from the property
// text (not from the implementation).

// quotedEnd: content is the text after the opening delimiter. Returns the
// content length and whether it was closed.
func quotedEnd(content string, d byte) (int, bool) {
	i := 0
	for i < len(content) {
		if content[i] != d {
			i++
			continue
		}
		// candidate delimiter at i: preceded by an odd run of backslashes?
		n := 0
		for j := i - 1; j >= 0 && content[j] == '\\'; j-- {
			n++
		}
		if n%2 == 1 {
			i++
			continue
		}
		// doubled delimiter: skipped as a pair
		if i+1 < len(content) && content[i+1] == d {
			i += 2
			continue
		}
		return i, true
	}
	return len(content), false
}

func qClose(b byte) byte {
	switch b {
	case '(':
		return ')'
	case '[':
		return ']'
	case '{':
		return '}'
	case '<':
		return '>'
	}
	return b
}

type litForm struct {
	name   string
	opener string
	delim  byte
	cat    string // admissible token classes
	mode   int    // index into sqlModes
	open   byte   // expected strOpen mark
	close  byte   // expected strClose mark when closed
	minTl  int    // minimal number of bytes after the opener for the form to apply
}

var litForms = []litForm{
	{"sq", "'", '\'', "s", 0, '\'', '\'', 0},
	{"dq", "\"", '"', "s", 0, '"', '"', 0},
	{"sq-mysql", "'", '\'', "s", 1, '\'', '\'', 0},
	{"bt", "`", '`', "nf", 0, '`', '`', 0},
	{"virtual-sq", "", '\'', "s", 2, 0, '\'', 1},
	{"virtual-dq", "", '"', "s", 4, 0, '"', 1},
	{"virtual-sq-mysql", "", '\'', "s", 3, 0, '\'', 1},
	{"virtual-dq-mysql", "", '"', "s", 5, 0, '"', 1},
	{"n-prefix", "n'", '\'', "s", 0, '\'', '\'', 1},
	{"N-prefix", "N'", '\'', "s", 0, '\'', '\'', 1},
	{"e-prefix", "e'", '\'', "s", 0, '\'', '\'', 1},
	{"E-prefix", "E'", '\'', "s", 1, '\'', '\'', 1},
	{"u-prefix", "u&'", '\'', "s", 0, 'u', 'u', 0},
	{"U-prefix", "U&'", '\'', "s", 0, 'u', 'u', 0},
	{"var-sq", "@'", '\'', "v", 0, '\'', '\'', 0},
	{"var-dq", "@\"", '"', "v", 0, '"', '"', 0},
	{"var-bt", "@`", '`', "v", 0, '`', '`', 0},
	{"var2-sq", "@@'", '\'', "v", 0, '\'', '\'', 0},
	{"var2-bt", "@@`", '`', "v", 0, '`', '`', 0},
}

var litPrefixes = []string{"", "1 ", "a=", "x\\", "select ", "\\\\", "'a' ", "(", "1,"}

func otherQuote(d byte) string {
	if d == '\'' {
		return "\""
	}
	return "'"
}

// C18 — SQL string literals end at their first real terminator.
func c18() *core.Check {
	plan := func(tier string, seed uint64) []core.Unit {
		L, P, QL, DL := 7, 3, 5, 6
		rnd := uint64(300000)
		if tier == "thorough" {
			L, P, QL, DL = 11, 5, 7, 9
			rnd = 30000000
		}
		var us []core.Unit
		for fi := range litForms {
			for l := 0; l <= L; l++ {
				us = append(us, gen.RangeUnits("body", gen.Pow(4, l), 30000, strconv.Itoa(fi)+":"+strconv.Itoa(l))...)
			}
			// periodic bodies U.V.U.V
			var words uint64
			for l := 0; l <= P; l++ {
				words += gen.Pow(4, l)
			}
			us = append(us, gen.RangeUnits("periodic", words*words, 30000, strconv.Itoa(fi)+":"+strconv.Itoa(P))...)
		}
		// q-quote: all 223 delimiter bytes x bodies over {b, close(b), ', x}
		for l := 0; l <= QL; l++ {
			us = append(us, gen.RangeUnits("qbody", 223*gen.Pow(4, l), 30000, strconv.Itoa(l))...)
		}
		// dollar quotes: tags of length 0..3 x bodies over {$, tag letter, x, other letter}
		for l := 0; l <= DL; l++ {
			us = append(us, gen.RangeUnits("dbody", 4*gen.Pow(4, l), 30000, strconv.Itoa(l))...)
		}
		us = append(us, gen.RangeUnits("embedded", rnd, 20000, "")...)
		// long backslash runs in front of a delimiter (parity around 32/64/128/256/1024)
		us = append(us, gen.RangeUnits("bsrun", uint64(len(litForms)*len(c18BsRuns)), 64, "")...)
		// q-quotes whose delimiter byte starts a multi-byte UTF-8 character
		us = append(us, gen.RangeUnits("qutf8", uint64(len(c18UTF8)*3125), 5000, "")...)
		// dollar tags: other letter case of the tag inside the body; long tags with cut-off closers
		us = append(us, gen.RangeUnits("dcase", uint64(len(c18CaseTags)*3125), 5000, "")...)
		us = append(us, gen.RangeUnits("dlong", uint64(len(c18LongTags)*625), 5000, "")...)
		// every letter as a one-letter tag and as second letter of a two-letter tag
		us = append(us, core.Unit{Gen: "dletters", Lo: 0, Hi: 52})
		// bodies over {delimiter, backslash, x, a byte >= 0x80, the last byte of a
		// UTF-8 character} (multi-byte "escape" handling in front of a backslash run)
		for fi := range litForms {
			us = append(us, gen.RangeUnits("body5", gen.Pow(5, 6), 16000, strconv.Itoa(fi))...)
			// characters whose code point has the delimiter as its low byte
			// (U+0100+d, U+0600+d, U+2000+d): a rune narrowed to a byte
			us = append(us, gen.RangeUnits("bodyu", gen.Pow(6, 5), 8000, strconv.Itoa(fi))...)
		}
		// literals of 28-40 content bytes with a multi-byte character across the
		// 31-byte value clip; closed literals followed by more literal-like syntax
		us = append(us, gen.RangeUnits("clipu", uint64(len(litForms)), 1, "")...)
		// bodies over {delimiter, x, blank, LF, CR LF}: adjacent literals on the next
		// line are separate tokens here, not one continued literal
		for fi := range litForms {
			us = append(us, gen.RangeUnits("bodyws", gen.Pow(5, 6), 16000, strconv.Itoa(fi))...)
		}
		// literals glued to the token before them (number, hex, closing bracket,
		// operator, another literal, comment) without white space
		us = append(us, gen.RangeUnits("glue", uint64((len(c18Glue)+len(c18GlueLetters))*341), 6000, "")...)
		us = append(us, gen.RangeUnits("dglue", uint64(len(c18Glue)*3*341), 6000, "")...)
		// literals behind SQL words that introduce special literal syntax elsewhere
		// (ESCAPE, UESCAPE, DELIMITER, date / interval / charset introducers)
		us = append(us, gen.RangeUnits("wordpre", uint64(len(c18WordPres)), 4, "")...)
		// back-quoted names whose whole content is a function name of the table
		us = append(us, core.Unit{Gen: "btfunc", Lo: 0, Hi: 1})
		// bodies that start with a BOM or other multi-byte / high / NUL prefix
		us = append(us, gen.RangeUnits("bodypre", uint64(len(litForms)*len(c18Prefixes)), 64, "")...)
		return us
	}
	return &core.Check{
		ID: "C18",
		Rule: "for every literal form (real ' \" `, virtual quote in the four quoted modes, n' N' e' E' u&' U&', @' @\" @` @@' @@`) bodies over {delimiter, backslash, x, other quote} exhaustively up to length 7 (thorough 11) and periodic bodies U.V.U.V for all U,V up to length 3 (5), behind nine SQL prefixes (incl. backslashes before the opener); q-quotes for all 223 delimiter bytes >= 33 x bodies over {b, close(b), ', x} up to 5 (7), q/Q/nq/Nq; dollar quotes with tags of length 0-3 x bodies over {$, tag letter, x, y} up to 6 (9); the same literals embedded in random SQL; bodies of length 6 over {delimiter, backslash, x, 0xA9, U+00E9} and of length 5 over {delimiter, backslash, x, U+0100+d, U+0600+d, U+2000+d} for every form; bodies behind a BOM / high-byte / NUL prefix; backslash runs of 29-36, 61-66, 127-130, 255-258, 1023-1025 and 4097 in front of a delimiter for every form; q-quotes whose delimiter byte is the lead byte of a multi-byte UTF-8 character with bodies over {lead byte, continuation bytes, ', x, whole character}; dollar tags with the tag in another letter case inside the body, and tags of 2-256 letters with cut-off / extended closers; bodies of length 6 over {delimiter, x, blank, LF, CR LF} for every form (adjacent literals on the next line); real-quote, variable and dollar literals of body length 0-4 glued without white space to 24 preceding tokens (numbers, hex, closing brackets, operators, comments, other literals); real-quote and dollar literals (the latter under both dialect flags) behind 36 SQL words that introduce special literal syntax elsewhere (ESCAPE, UESCAPE, DELIMITER, date / interval / charset introducers); back-quoted names whose whole content is a function name of the table; virtual-quote literals additionally on a state that has been through the earlier readings of the cascade. " +
			"The string token (content start, content end taken from the scan offset after the token, closed?, open/close marks, resume offset) is compared with the first-terminator oracle. Non-trivial = bodies holding a delimiter or backslash; distinct by input+form.",
		Plan: plan,
		Gen: func(w *core.Worker, u core.Unit, emit func(core.Case)) {
			alpha4 := func(d byte) []string { return []string{string([]byte{d}), "\\", "x", otherQuote(d)} }
			switch u.Gen {
			case "body":
				p := strings.SplitN(u.Arg, ":", 2)
				fi, _ := strconv.Atoi(p[0])
				l, _ := strconv.Atoi(p[1])
				f := litForms[fi]
				al := alpha4(f.delim)
				var buf []byte
				for i := u.Lo; i < u.Hi; i++ {
					buf = gen.Enum(al, l, i, buf)
					emitLit(fi, string(buf), int(i), emit)
				}
			case "periodic":
				p := strings.SplitN(u.Arg, ":", 2)
				fi, _ := strconv.Atoi(p[0])
				P, _ := strconv.Atoi(p[1])
				f := litForms[fi]
				al := alpha4(f.delim)
				var words []string
				var buf []byte
				for l := 0; l <= P; l++ {
					for i := uint64(0); i < gen.Pow(4, l); i++ {
						buf = gen.Enum(al, l, i, buf)
						words = append(words, string(buf))
					}
				}
				n := uint64(len(words))
				for i := u.Lo; i < u.Hi; i++ {
					U, V := words[i/n], words[i%n]
					emitLit(fi, U+V+U+V, int(i), emit)
					if i%3 == 0 {
						emitLit(fi, U+V+U+V+U, int(i), emit)
					}
				}
			case "qbody":
				l, _ := strconv.Atoi(u.Arg)
				per := gen.Pow(4, l)
				var buf []byte
				for i := u.Lo; i < u.Hi; i++ {
					b := byte(33 + i/per)
					cl := qClose(b)
					al := []string{string([]byte{b}), string([]byte{cl}), "'", "x"}
					buf = gen.Enum(al, l, i%per, buf)
					body := string(buf)
					for oi, op := range []string{"q'", "Q'", "nq'", "Nq'", "nQ'"} {
						if oi > 1 && i%4 != 0 {
							continue
						}
						pre := litPrefixes[int(i)%len(litPrefixes)]
						in := pre + op + string([]byte{b}) + body
						emit(core.Case{In: in, Kind: "q", A: int64(len(pre) + len(op) + 1), B: int64(cl)})
					}
				}
			case "dbody":
				l, _ := strconv.Atoi(u.Arg)
				per := gen.Pow(4, l)
				tags := []string{"", "t", "ab", "tat"}
				var buf []byte
				for i := u.Lo; i < u.Hi; i++ {
					tag := tags[i/per]
					letter := "t"
					if len(tag) > 0 {
						letter = tag[:1]
					}
					al := []string{"$", letter, "x", "b"}
					buf = gen.Enum(al, l, i%per, buf)
					body := string(buf)
					pre := litPrefixes[int(i)%len(litPrefixes)]
					if strings.HasSuffix(pre, "\\") {
						pre = ""
					}
					op := "$" + tag + "$"
					emit(core.Case{In: pre + op + body, Kind: "dollar", A: int64(len(pre) + len(op)), S: op})
				}
			case "bodyws":
				fi, _ := strconv.Atoi(u.Arg)
				f := litForms[fi]
				al := []string{string([]byte{f.delim}), "x", " ", "\n", "\r\n"}
				var buf []byte
				for i := u.Lo; i < u.Hi; i++ {
					buf = gen.Enum(al, 6, i, buf)
					emitLit(fi, string(buf), int(i), emit)
				}
			case "glue":
				var buf []byte
				for i := u.Lo; i < u.Hi; i++ {
					pre := append(append([]string{}, c18Glue...), c18GlueLetters...)[i/341]
					buf = enumUpTo4(alpha4('\''), i%341, buf)
					for fi, f := range litForms {
						if f.opener == "" || !strings.ContainsAny(f.opener[:1], "'\"`@") {
							continue
						}
						if strings.ContainsAny(pre, "'\"`") {
							continue // a quote right before the opener would pair up with it
						}
						if isLetter(pre[len(pre)-1]) || pre[len(pre)-1] == '&' {
							// string-prefix letters in front of the OTHER quote kinds (u&"..", n"..")
							if f.opener != "\"" {
								continue // a back quote continues a word; the single quote has its own prefixed forms
							}
						}
						body := strings.ReplaceAll(strings.ReplaceAll(strings.ReplaceAll(string(buf), "\"", "\x01"), "'", string([]byte{f.delim})), "\x01", otherQuote(f.delim))
						emit(core.Case{In: pre + f.opener + body, Kind: "quoted", A: int64(len(pre) + len(f.opener)), C: int64(fi)})
					}
				}
			case "dglue":
				var buf []byte
				for i := u.Lo; i < u.Hi; i++ {
					pre := c18Glue[(i/341)%uint64(len(c18Glue))]
					tag := []string{"", "t", "ab"}[i/341/uint64(len(c18Glue))]
					letter := "t"
					if len(tag) > 0 {
						letter = tag[:1]
					}
					buf = enumUpTo4([]string{"$", letter, "x", "b"}, i%341, buf)
					op := "$" + tag + "$"
					emit(core.Case{In: pre + op + string(buf), Kind: "dollar", A: int64(len(pre) + len(op)), S: op})
				}
			case "body5":
				fi, _ := strconv.Atoi(u.Arg)
				f := litForms[fi]
				al := []string{string([]byte{f.delim}), "\\", "x", "\xa9", "\xc3\xa9"}
				var buf []byte
				for i := u.Lo; i < u.Hi; i++ {
					buf = gen.Enum(al, 6, i, buf)
					emitLit(fi, string(buf), int(i), emit)
				}
			case "bodyu":
				fi, _ := strconv.Atoi(u.Arg)
				f := litForms[fi]
				d := rune(f.delim)
				al := []string{string([]byte{f.delim}), "\\", "x", string(0x100 + d), string(0x600 + d), string(0x2000 + d)}
				var buf []byte
				for i := u.Lo; i < u.Hi; i++ {
					buf = gen.Enum(al, 5, i, buf)
					emitLit(fi, string(buf), int(i), emit)
				}
			case "clipu":
				for i := u.Lo; i < u.Hi; i++ {
					fi := int(i)
					f := litForms[fi]
					d := string([]byte{f.delim})
					for _, ch := range []string{"\xc3\xa9", "\xe2\x82\xac", "\xf0\x9f\x98\x80", "\xa9", "\xc3"} {
						for k := 26; k <= 33; k++ {
							body := strings.Repeat("a", k) + ch + strings.Repeat("b", 6)
							emitLit(fi, body+d+" x", k, emit)
							emitLit(fi, body, k, emit)
						}
					}
					for _, tail := range []string{" UESCAPE '!' or 1=1", " uescape '!", "UESCAPE'!'x", " UESCAPE ''", " escape '\\' y", " 'b' c", "'b'", " collate x", "::text", " " + d + "z" + d, d} {
						emitLit(fi, "d!0061ta"+d+tail, 3, emit)
						emitLit(fi, "a"+d+tail, 5, emit)
					}
				}
			case "wordpre":
				for i := u.Lo; i < u.Hi; i++ {
					pre := c18WordPres[i]
					for fi, f := range litForms {
						if f.opener == "" || !strings.ContainsAny(f.opener[:1], "'\"`") {
							continue
						}
						d := string([]byte{f.delim})
						for _, body := range []string{"\\" + d + " or 1=1 -- " + d, "a" + d + " or 1", d, "\\" + d, "x" + d + "y" + d, "", "!" + d + " union select 1", "\\\\" + d + "z" + d} {
							emit(core.Case{In: pre + f.opener + body, Kind: "quoted", A: int64(len(pre) + len(f.opener)), C: int64(fi)})
						}
					}
					for _, op := range []string{"$$", "$t$", "$body$"} {
						for _, body := range []string{" union select 1 " + op + " or 1=1", "a" + op + "b", "", "$", "x" + op[:len(op)-1], " " + op + " " + op} {
							for m := int64(0); m < 2; m++ {
								emit(core.Case{In: pre + op + body, Kind: "dollar", A: int64(len(pre) + len(op)), S: op, C: m})
							}
						}
					}
				}
			case "btfunc":
				var keys []string
				for k, v := range keywords() {
					if v == 'f' && !strings.ContainsAny(k, " `") && len(k) < 31 {
						keys = append(keys, strings.ToLower(k))
					}
				}
				sort.Strings(keys)
				for i, k := range keys {
					for fi, f := range litForms {
						if f.delim != '`' || f.opener == "" {
							continue
						}
						for _, body := range []string{k + "`", k + "`(1)", k, k + "``x`", strings.ToUpper(k) + "` or 1"} {
							emitLit(fi, body, i, emit)
						}
					}
				}
			case "bodypre":
				for i := u.Lo; i < u.Hi; i++ {
					fi := int(i) / len(c18Prefixes)
					f := litForms[fi]
					d := string([]byte{f.delim})
					pre := c18Prefixes[int(i)%len(c18Prefixes)]
					for _, body := range []string{pre + "x" + d + "y", pre + d + "y" + d, pre + "1" + d + " or 1=1 -- ", pre, pre + d, pre + "\\" + d + "x" + d} {
						emitLit(fi, body, int(i), emit)
					}
				}
			case "bsrun":
				for i := u.Lo; i < u.Hi; i++ {
					fi := int(i) / len(c18BsRuns)
					n := c18BsRuns[int(i)%len(c18BsRuns)]
					f := litForms[fi]
					d := string([]byte{f.delim})
					run := strings.Repeat("\\", n)
					for _, body := range []string{run + d + "y" + d + "z", "x" + run + d + d + "y" + d, "ab" + run + d, run + "x" + d + run + d + "y" + d} {
						emitLit(fi, body, int(i), emit)
					}
				}
			case "qutf8":
				var buf []byte
				for i := u.Lo; i < u.Hi; i++ {
					ch := c18UTF8[i/3125]
					lead := ch[:1]
					cont := ch[1:]
					al := []string{lead, cont, "'", "x", ch}
					buf = gen.Enum(al, 5, i%3125, buf)
					// the body starts with the rest of the character: the delimiter byte is its lead byte
					body := cont + string(buf)
					op := []string{"q'", "Q'", "nq'"}[i%3]
					pre := litPrefixes[int(i)%len(litPrefixes)]
					emit(core.Case{In: pre + op + lead + body, Kind: "q", A: int64(len(pre) + len(op) + 1), B: int64(lead[0])})
				}
			case "dcase":
				var buf []byte
				for i := u.Lo; i < u.Hi; i++ {
					tag := c18CaseTags[i/3125]
					op := "$" + tag + "$"
					swap := []byte(tag)
					for j := range swap {
						swap[j] ^= 0x20
					}
					al := []string{"$", tag, string(swap), "$" + strings.ToUpper(tag) + "$", "$" + strings.ToLower(tag) + "$"}
					buf = gen.Enum(al, 5, i%3125, buf)
					pre := litPrefixes[int(i)%len(litPrefixes)]
					if strings.HasSuffix(pre, "\\") {
						pre = ""
					}
					emit(core.Case{In: pre + op + string(buf), Kind: "dollar", A: int64(len(pre) + len(op)), S: op})
				}
			case "dletters":
				const ab = "abcdefghijklmnopqrstuvwxyzABCDEFGHIJKLMNOPQRSTUVWXYZ"
				for i := u.Lo; i < u.Hi; i++ {
					for _, tag := range []string{ab[i : i+1], "a" + ab[i:i+1], ab[i:i+1] + "q" + ab[i:i+1]} {
						op := "$" + tag + "$"
						for _, body := range []string{"ab" + op + " or 1", "a$b" + op, "x", op, "$" + strings.ToLower(tag) + "x$" + op + "y"} {
							emit(core.Case{In: op + body, Kind: "dollar", A: int64(len(op)), S: op})
						}
					}
				}
			case "dlong":
				var buf []byte
				for i := u.Lo; i < u.Hi; i++ {
					tag := c18LongTags[i/625]
					op := "$" + tag + "$"
					cut := tag
					if len(cut) > 63 {
						cut = cut[:63]
					}
					al := []string{"$" + cut + "$", op, "$" + tag[:len(tag)-1] + "$", "x", "$" + tag + "a$"}
					buf = gen.Enum(al, 4, i%625, buf)
					emit(core.Case{In: op + string(buf), Kind: "dollar", A: int64(len(op)), S: op})
				}
			case "embedded":
				r := core.NewRng(w.R.Seed, "c18", fmt.Sprint(u.Lo))
				for i := u.Lo; i < u.Hi; i++ {
					fi := r.Intn(len(litForms))
					f := litForms[fi]
					al := append(alpha4(f.delim), "a", " ", "\\\\", string([]byte{f.delim, f.delim}), "\\"+string([]byte{f.delim}), " or 1=1", "--")
					n := r.Intn(10)
					var b strings.Builder
					for j := 0; j < n; j++ {
						b.WriteString(r.Pick(al))
					}
					body := b.String()
					if r.Intn(3) == 0 && len(body) > 1 {
						k := r.Intn(len(body))
						body = body + body[k:] // repeated tail
					}
					emitLit(fi, body, r.Intn(1<<20), emit)
				}
			}
		},
		One: func(w *core.Worker, c core.Case) {
			w.Eval(1)
			if msg := checkLiteral(w, c); msg != "" {
				w.Violate("first-terminator", msg)
			}
		},
		Explain: func(c core.Case) string {
			mode := sqlModes[0]
			if c.Kind == "quoted" {
				mode = sqlModes[litForms[c.C].mode]
			}
			tr := li.VerifSQLTokens(c.In, mode)
			return fmt.Sprintf("kind=%s content starts at %d, mode %s\n%s", c.Kind, c.A, modeName(mode), dumpSQLTrace(&tr))
		},
	}
}

// tokens that end on their own, so that a literal opener glued to them starts a new token
var c18Glue = []string{"1", "0x1F", "1.5", "1e5", ".5", "1)", "1=", "1+", "1,", "(", ";", "}", "0b1", "1\n", "1\r\n", "1\t", "/**/", "'b'", "\"b\"", "`b`", "1.", "0X1f", "1e+5", "1 or 1"}

// string-prefix letters, tried in front of the quote kinds they do not belong to
var c18GlueLetters = []string{"u&", "U&", "n", "N", "e", "x", "b", "nq", "_utf8", "select u&", "1 or U&"}

// enumUpTo4: the i-th word of length 0..4 over a four-letter alphabet (341 words).
func enumUpTo4(al []string, i uint64, buf []byte) []byte {
	l := 0
	for n := uint64(1); i >= n; n *= 4 {
		i -= n
		l++
	}
	return gen.Enum(al, l, i, buf)
}

var c18WordPres = []string{"escape ", "like 'a' escape ", "ESCAPE\n", "x like 'a%' escape ", "uescape ", "u&'a' uescape ", "delimiter ", "DELIMITER ", "1 #\ndelimiter ", "1 -- x\ndelimiter ", "Delimiter\t", "collate ", "charset ", "character set ",
	"interval ", "date ", "timestamp ", "time ", "as ", "into outfile ", "load_file(", "regexp ", "rlike ", "like ", "not like ", "binary ", "_utf8 ", "in (", "concat(", "select ", "1 or ", "against (", "= ", "|| ", "similar to ", "at time zone "}

var c18BsRuns = []int{29, 30, 31, 32, 33, 34, 35, 36, 61, 62, 63, 64, 65, 66, 127, 128, 129, 130, 255, 256, 257, 258, 1023, 1024, 1025, 4097}

// two-, three- and four-byte characters, and lead bytes with the wrong number of continuation bytes
var c18UTF8 = []string{"\xc3\xa9", "\xc3\x9f", "\xc2\xa0", "\xdf\xbf", "\xe2\x82\xac", "\xe3\x80\x80", "\xef\xbb\xbf", "\xf0\x9f\x98\x80", "\xf4\x8f\xbf\xbf", "\xc3\xa9\xa9", "\xe2\x82", "\xf0\x9f"}

var c18Prefixes = []string{"\xef\xbb\xbf", "\xff\xfe", "\xfe\xff", "\x00", "\xc2\xa0", "\xe2\x80\x8b", "\xef\xbb", "\xef", "\xe2\x80\x98", "\xef\xbc\x87", "\xc0\xa7", " ", "\n"}

var c18CaseTags = []string{"Tag", "tAG", "a", "Ab", "T", "body", "END"}

var c18LongTags = func() []string {
	var out []string
	for _, n := range []int{2, 31, 32, 33, 62, 63, 64, 65, 100, 255, 256} {
		out = append(out, strings.Repeat("tagname", n/7+1)[:n])
	}
	return out
}()

// cascadePrior: the readings check() has been through when it reaches a mode
// (index into sqlModes); nil for modes that are not part of the cascade.
func cascadePrior(mi int) []int {
	switch mi {
	case 2:
		return []int{sqlModes[0]}
	case 3:
		return []int{sqlModes[0], sqlModes[2]}
	case 5:
		return []int{sqlModes[0], sqlModes[2]}
	}
	return nil
}

func emitLit(fi int, body string, salt int, emit func(core.Case)) {
	f := litForms[fi]
	if len(body) < f.minTl {
		return
	}
	if f.opener == "" {
		// virtual quote: the literal starts at offset 0 by definition
		emit(core.Case{In: body, Kind: "quoted", A: 0, C: int64(fi)})
		return
	}
	for k := 0; k < 2; k++ {
		pre := litPrefixes[(salt+k*4)%len(litPrefixes)]
		if k == 0 {
			pre = ""
		}
		if f.cat == "v" && (strings.HasSuffix(pre, "=") || strings.HasSuffix(pre, "\\")) {
			// fine: '@' starts a new token after '=' or '\'
		}
		if (f.opener[0] == 'n' || f.opener[0] == 'N' || f.opener[0] == 'e' || f.opener[0] == 'E' || f.opener[0] == 'u' || f.opener[0] == 'U') &&
			(strings.HasSuffix(pre, "\\") || strings.HasSuffix(pre, "=") && false) {
			// a letter right after a backslash would change the previous token (\N); avoid
			pre = pre + " "
		}
		emit(core.Case{In: pre + f.opener + body, Kind: "quoted", A: int64(len(pre) + len(f.opener)), C: int64(fi)})
	}
}

func checkLiteral(w *core.Worker, c core.Case) string {
	s := c.In
	start := int(c.A)
	if start > len(s) {
		return ""
	}
	content := s[start:]
	var wantLen, termLen int
	var closed bool
	var mode int
	cats := "s"
	var wantOpen, wantClose byte
	switch c.Kind {
	case "quoted":
		f := litForms[c.C]
		mode = sqlModes[f.mode]
		cats = f.cat
		wantLen, closed = quotedEnd(content, f.delim)
		termLen = 1
		wantOpen, wantClose = f.open, f.close
	case "q":
		mode = sqlModes[0]
		idx := strings.Index(content, string([]byte{byte(c.B), '\''}))
		if idx < 0 {
			wantLen, closed = len(content), false
		} else {
			wantLen, closed = idx, true
		}
		termLen = 2
		wantOpen, wantClose = 'q', 'q'
	case "dollar":
		mode = sqlModes[0]
		if c.C == 1 {
			mode = sqlModes[1] // the same literal under the MySQL flag
		}
		idx := strings.Index(content, c.S)
		if idx < 0 {
			wantLen, closed = len(content), false
		} else {
			wantLen, closed = idx, true
		}
		termLen = len(c.S)
		wantOpen, wantClose = '$', '$'
	default:
		return ""
	}
	tr := li.VerifSQLTokens(s, mode)
	k := -1
	for i, t := range tr.Tokens {
		if t.Pos == start && strings.IndexByte(cats, t.Category) >= 0 && t.After > start-1 && (t.StrOpen != 0 || c.Kind == "quoted" && litForms[c.C].opener == "") {
			k = i
			break
		}
	}
	if k < 0 {
		return fmt.Sprintf("%s: no literal token starting at content offset %d\n%s", c.Kind, start, dumpSQLTrace(&tr))
	}
	t := tr.Tokens[k]
	wantResume := len(s)
	if closed {
		wantResume = start + wantLen + termLen
	}
	clip := wantLen
	if clip > 31 {
		clip = 31
	}
	gotClosed := t.StrClose != 0
	switch {
	case gotClosed != closed:
		return fmt.Sprintf("%s: token closed=%v, first-terminator oracle says closed=%v (content %q, want length %d)\n%s", c.Kind, gotClosed, closed, trunc(content, 60), wantLen, dumpSQLTrace(&tr))
	case t.After != wantResume:
		return fmt.Sprintf("%s: scanning resumes at %d, oracle says %d (content %q: length %d, closed=%v)\n%s", c.Kind, t.After, wantResume, trunc(content, 60), wantLen, closed, dumpSQLTrace(&tr))
	case t.Len != clip:
		return fmt.Sprintf("%s: token length %d, oracle content length %d (clipped %d)\n%s", c.Kind, t.Len, wantLen, clip, dumpSQLTrace(&tr))
	case t.StrOpen != wantOpen:
		return fmt.Sprintf("%s: open mark %q, want %q\n%s", c.Kind, t.StrOpen, wantOpen, dumpSQLTrace(&tr))
	case closed && t.StrClose != wantClose:
		return fmt.Sprintf("%s: close mark %q, want %q\n%s", c.Kind, t.StrClose, wantClose, dumpSQLTrace(&tr))
	}
	if k+1 < len(tr.Tokens) && tr.Tokens[k+1].Pos < wantResume {
		return fmt.Sprintf("%s: next token starts at %d, inside the literal (ends %d)\n%s", c.Kind, tr.Tokens[k+1].Pos, wantResume, dumpSQLTrace(&tr))
	}
	if c.Kind == "quoted" && litForms[c.C].opener == "" {
		// the virtual-quote readings are reached by check() on a state that has
		// been through earlier readings: the literal must come out the same there
		if prior := cascadePrior(litForms[c.C].mode); prior != nil {
			tr2 := li.VerifSQLTokensAfter(s, prior, mode)
			if len(tr2.Tokens) <= k {
				return fmt.Sprintf("%s: after the earlier readings on the same state the token stream has %d tokens, on a fresh state %d\n%s", litForms[c.C].name, len(tr2.Tokens), len(tr.Tokens), dumpSQLTrace(&tr2))
			}
			if t2 := tr2.Tokens[k]; t2.Pos != t.Pos || t2.Len != t.Len || t2.Val != t.Val || t2.After != t.After || t2.StrOpen != t.StrOpen || t2.StrClose != t.StrClose || t2.Category != t.Category {
				return fmt.Sprintf("%s: after the earlier readings on the same state the literal token differs from the one on a fresh state (resume %d vs %d, length %d vs %d, closed %v vs %v)\n%s", litForms[c.C].name, t2.After, t.After, t2.Len, t.Len, t2.StrClose != 0, t.StrClose != 0, dumpSQLTrace(&tr2))
			}
			w.Count("virtual_literals_also_on_reused_state", 1)
		}
	}
	name := c.Kind
	if c.Kind == "quoted" {
		name = litForms[c.C].name
	}
	w.Observe("forms", name)
	if closed {
		w.Count("closed", 1)
	} else {
		w.Count("unclosed", 1)
	}
	if strings.ContainsAny(content, "\\'\"`$") || c.Kind == "q" {
		w.Nontrivial(name + "|" + s)
	}
	w.Sample(s)
	return ""
}
