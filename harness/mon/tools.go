package mon

import (
	"fmt"
	"sync"
	"sync/atomic"

	li "github.com/corazawaf/libinjection-go"

	"verif/harness/core"
)

// BehaviourHash runs the SQL and HTML quick workloads and prints an
// order-independent digest of everything observable (verdicts, fingerprints,
// token traces, per-context verdicts). Construction tool used to show that a
// performance fix changes no behaviour: run it against two trees
// (VERIF_REPO) and compare.
func BehaviourHash() {
	run := &core.Run{Seed: 1, Check: &core.Check{ID: "hash"}}
	var sum atomic.Uint64
	var n atomic.Uint64
	do := func(d *domain, units []core.Unit, f func(s string) uint64) {
		var next atomic.Int64
		var wg sync.WaitGroup
		for i := 0; i < 16; i++ {
			wg.Add(1)
			go func() {
				defer wg.Done()
				w := run.NewWorkerBare()
				for {
					k := int(next.Add(1)) - 1
					if k >= len(units) {
						return
					}
					emit := func(c core.Case) {
						h := func() (h uint64) {
							defer func() {
								if r := recover(); r != nil {
									h = core.Hash64(fmt.Sprint("panic", r))
								}
							}()
							return f(c.In)
						}()
						sum.Add(h * (core.Hash64(c.In) | 1))
						n.Add(1)
					}
					if d == sqlDomain {
						sqlGen(w, units[k], emit)
					} else {
						htmlGen(w, units[k], emit)
					}
				}
			}()
		}
		wg.Wait()
	}
	do(sqlDomain, planMix(sqlDomain, sqlQuick), func(s string) uint64 {
		b, fp := li.IsSQLi(s)
		h := core.Hash64(fmt.Sprint(b, fp))
		if len(s) <= 4096 {
			for _, m := range sqlModes {
				tr := li.VerifSQLTokens(s, m)
				h = h*31 + core.Hash64(fmt.Sprint(tr))
				fo := li.VerifSQLFold(s, m)
				h = h*31 + core.Hash64(fmt.Sprint(fo))
			}
		}
		return h
	})
	fmt.Printf("sql cases=%d digest=%016x\n", n.Load(), sum.Load())
	n.Store(0)
	sum.Store(0)
	do(htmlDomain, planMix(htmlDomain, htmlQuick), func(s string) uint64 {
		h := core.Hash64(fmt.Sprint(li.IsXSS(s)))
		if len(s) <= 4096 {
			for _, c := range h5Ctxs {
				t, _ := li.VerifH5Tokens(s, c, len(s)+2)
				h = h*31 + core.Hash64(fmt.Sprint(t, li.VerifXSSCtx(s, c)))
			}
		}
		return h
	})
	fmt.Printf("html cases=%d digest=%016x\n", n.Load(), sum.Load())
}
