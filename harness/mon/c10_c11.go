package mon

import (
	"fmt"
	"strings"

	li "github.com/corazawaf/libinjection-go"

	"verif/harness/core"
	"verif/harness/gen"
)

func isLetter(c byte) bool { return c >= 'a' && c <= 'z' || c >= 'A' && c <= 'Z' }

// sqlCaseExempt marks the byte positions whose case SQL itself (and hence
// the property) treats as significant. Deliberately over-approximated: a too
// wide exemption only loses coverage, it can never raise a false alarm.
func sqlCaseExempt(s string) []bool {
	ex := make([]bool, len(s))
	// letter right after a backslash (\N)
	for i := 0; i+1 < len(s); i++ {
		if s[i] == '\\' && isLetter(s[i+1]) {
			ex[i+1] = true
		}
	}
	// letter run right after '$' (dollar-quote tags, opening and closing)
	for i := 0; i < len(s); i++ {
		if s[i] == '$' {
			for j := i + 1; j < len(s) && isLetter(s[j]); j++ {
				ex[j] = true
			}
		}
	}
	// every case-insensitive occurrence of sp_password
	low := []byte(s)
	for i, c := range low {
		if c >= 'A' && c <= 'Z' {
			low[i] = c + 0x20
		}
	}
	ls := string(low)
	for off := 0; ; {
		k := strings.Index(ls[off:], "sp_password")
		if k < 0 {
			break
		}
		for j := off + k; j < off+k+len("sp_password"); j++ {
			ex[j] = true
		}
		off += k + 1
	}
	// q-quote with a letter delimiter: the delimiter and every letter directly
	// followed by a quote (possible closing delimiters)
	hasQ := false
	for i := 0; i+2 < len(s); i++ {
		if (s[i] == 'q' || s[i] == 'Q') && s[i+1] == '\'' && isLetter(s[i+2]) {
			hasQ = true
			ex[i+2] = true
		}
	}
	if hasQ {
		for i := 0; i+1 < len(s); i++ {
			if isLetter(s[i]) && s[i+1] == '\'' {
				ex[i] = true
			}
		}
	}
	return ex
}

// sqlCaseSites: seeds whose verdict or fingerprint hinges on one of the
// case-folding sites. All 2^k masks are tried for k <= 12 letters.
var sqlCaseSites = []string{
	"1 collate nocase union select 1", "a collate rtrim or 1", "a collate binary or 1", "a collate posix union select 1", "1 collate unicode union select 1", "a collate c or 1",
	"1 or 1.e(1)=1", "1 or 1e(1)=1", "1.e1(1) or", "1 or 0x(1)", "1d(1) or 1", "1 or .e(1)",
	"1 sounds like (select 1)", "a not in boolean mode or 1", "fetch first 1 rows only", "sys.stragg(1) or", "exec xp 'a'", "exec sp_a 'b'",
	"1 union select 1", "1 union all select 1", "1 or 1=1", "1 and 1", "1 xor 1", "1 mod 1 or", "1 div 1 --", "a like b or", "1 not like 2 or 1", "1 is not null or",
	"1 and not 1", "1 or not(1)", "not 1 or", "select not 1", "1 in (1) or", "a in (1)", "a not in (1)", "1 in boolean mode", "select like(1)", "a not like(b)",
	"user() or", "user(1)", "user_id()", "user_name()", "database()", "password(1)", "current_user()", "current_date()", "current_time()", "current_timestamp()", "localtime()", "localtimestamp()",
	"1 into outfile 'x'", "'a' into dumpfile 'b'", "x' into outfile 'y", "1;if 1=1", ";if(1)", "1; if 1", "1;iF 1",
	"1 or 0xab=1", "1 union select 0x1f", "0b01 or 1", "0B1 or 1", "1e5 or 1", "1E-5 or 1", "1.5e+3 or", "1f or 1", "1d or 1", "1.5F or", "1fu", "1dunion select", "1Dunion",
	"n'a' or 1", "N'a' or", "e'a' or 1", "E'a\\'b' or 1", "b'01' or 1", "B'1' or", "x'1f' or 1", "X'aB' or", "x'AB'='a", "u&'a' or 1", "U&'a' or", "q'(a)' or 1", "Q'[a]' or", "nq'(a)' or", "Nq'(a)' or", "nQ'[a]' or 1",
	"a collate utf8_bin b", "a collate b_c", "1::int or", "a::varchar or 1", "'a'::text or",
	"1 union select sleep(1)", "1 and sleep(5)", "1 or benchmark(1,1)", "1; drop table t", "1; exec xp_cmdshell", "1; declare @a", "1 group by 1 having 1", "1 order by 1 --", "1 limit 1 --",
	"select.a or 1", "select`a` or 1", "1 union`a`", "sleep.a", "`sleep`(1)", "`select` or 1", "1 natural join a", "1 cross join a or", "1 left outer join a", "a sounds like b or", "a is distinct from b",
	"1 at time zone a", "next value for a or", "1 between 1 and 2 or", "case when 1 then 1 end or", "waitfor delay '0:0:1' --", "1 procedure analyse()", "1 rlike 1 or", "1 regexp 1 or",
	"@a := 1 or", "1 or true", "1 or false is null", "1 or null is null", "binary 1 or", "1 in (select 1)", "exists(select 1)", "1 union select load_file('a')", "1 or ascii(1)",
	"-1' and 1=1 union/* foo */select load_file('/etc/passwd')--", "1' or '1'='1", "x' and sleep(5) -- ", "1\" or 1=1 #", "1 /*!union*/ select", "{a b} or 1", "{`a` or",
	"1 or 0xabcdefabcdefabcdefabcdefabcdefabcdefabcdefabcdef=1", "select 0x6161616161616161616161616161616161616161616161fe from t", "1 or 0b0101010101010101010101010101010101010101=1", "x'abcdefabcdefabcdefabcdefabcdefabcdefabcdef' or 1",
	"1 or @database()", "1 or `user`()", "`current_user`() or 1", "@user() or 1", "1 or @@version()", "1 or @`database`()", "1 and `version`()=1", "select `Version`()", "1 or `localtime`()", "@current_date() or 1",
	"1 or pg_sleep(5)", "1 or md5(1)=2", "1 union select load_file(1),utl_http.request(2)", "1 and sys_context(1,2)", "1 or to_base64(1)", "1 or sha1(2)", "x' or utl_inaddr.get_host_name(1)='",
	"\\N or 1", "\\n or 1", "$t$a$t$ or 1", "$T$a$T$ or 1", "1 --sp_password", "1 --SP_PASSWORD", "q'aXa' or 1", "q'AxA' or 1", "1 or q'zaz'='a",
}

func twin5(s string) string {
	b := []byte(s)
	ch := false
	for i, c := range b {
		if c == '_' || c >= '0' && c <= '9' {
			b[i] = c ^ 0x20
			ch = true
		}
	}
	if !ch {
		return s
	}
	return string(b)
}

var c10AliasOnce []string

func c10AliasCases() []string {
	if c10AliasOnce != nil {
		return c10AliasOnce
	}
	var out []string
	tails := []string{"union select 1,2", "or 1=1", "and sleep(5)", "select 1 from t", "union all select null", "xor 1", "having 1=1", "like 1 or 1"}
	for _, D := range []int{256, 32768, 65536} {
		for _, lead := range []string{"", "1 ", "x' "} {
			for pi, padUnit := range []string{" ", "/**/", "\n", "\x00"} {
				for ti, t := range tails {
					if (ti+pi)%2 == 1 && D == 65536 {
						continue
					}
					kwLen := strings.IndexByte(t, ' ')
					if kwLen < 0 {
						kwLen = len(t)
					}
					w := strings.Repeat("q", kwLen)
					k := D - kwLen
					pad := strings.Repeat(padUnit, k/len(padUnit)+1)[:k]
					if padUnit == "/**/" {
						// keep the comment run well formed: blanks for the remainder
						pad = strings.Repeat(padUnit, k/4) + strings.Repeat(" ", k%4)
					}
					out = append(out, lead+w+pad+t)
				}
			}
		}
	}
	c10AliasOnce = out
	return out
}

// C10 — SQLi is insensitive to ASCII letter case.
func c10() *core.Check {
	plan := func(tier string, seed uint64) []core.Unit {
		us := []core.Unit{{Gen: "sites", Lo: 0, Hi: uint64(len(sqlCaseSites))}}
		mixes := []Mix{{Gen: "corpus"}, {Gen: "bytes"}, {Gen: "atoms", Dict: "sqlext", K: 2}, {Gen: "seq", Dict: "sqlext", N: 150000}, {Gen: "mut", Dict: "sqlext", N: 100000}, {Gen: "wl", N: 50000}, {Gen: "g03", N: 100000}}
		if tier == "thorough" {
			mixes = []Mix{{Gen: "corpus"}, {Gen: "bytes"}, {Gen: "trunc"}, {Gen: "atoms", Dict: "sqlext", K: 3}, {Gen: "seq", Dict: "sqlext", N: 2500000}, {Gen: "mut", Dict: "sqlext", N: 2000000}, {Gen: "novel", Dict: "sqlext", N: 1000000}, {Gen: "wl", N: 500000}, {Gen: "g03", N: 1500000}}
		}
		// one unit per site so that the exhaustive mask sweeps run in parallel
		us = us[:0]
		for i := range sqlCaseSites {
			us = append(us, core.Unit{Gen: "sites", Lo: uint64(i), Hi: uint64(i + 1), Arg: tier})
		}
		us = append(us, core.Unit{Gen: "kwframes", Lo: 0, Hi: 1, Arg: tier})
		us = append(us, gen.RangeUnits("alias", uint64(len(c10AliasCases())), 8, "")...)
		nl := uint64(20000)
		if tier == "thorough" {
			nl = 300000
		}
		mixes = append(mixes, Mix{Gen: "longtok", N: nl}, Mix{Gen: "qualified"}, Mix{Gen: "gluelit"}, Mix{Gen: "encatk"}, Mix{Gen: "dialect"}, Mix{Gen: "prose"})
		return append(us, planMix(sqlDomain, mixes)...)
	}
	return &core.Check{
		ID: "C10",
		Rule: "case-site catalogue (one or more seeds per case-folding site: keyword classes, phrase merge, unary NOT, IN/LIKE/USER() rules, INTO, ;IF, hex/binary/exponent/suffix letters, string prefixes, COLLATE, :: types) with ALL 2^k case masks for k <= 12 non-exempt letters (4096 random masks beyond); every key of the live keyword table in 7-12 sentence frames (word, operator, phrase merge, before '.' and back-tick, after ';', as function) and every other SQL workload input (incl. 30-64 byte tokens of every lexer) with the masks all-upper, all-lower, alternating x2 and 4 random ones; inputs of 256 B / 32 KiB / 64 KiB made of a word, padding up to exactly that distance and a keyword of the same length (offsets narrowed to 8 or 16 bits alias there); before every comparison the input with bit 5 flipped in '_' and digits is asked once (a byte-wise case fold identifies the two). " +
			"Exempt positions (over-approximated): letter after a backslash, letter runs after '$', occurrences of sp_password, q-quote letter delimiters and letters directly before a quote in such inputs. Oracle: IsSQLi(s') = IsSQLi(s), verdict and fingerprint. Non-trivial = compared pairs (s,s') with s' != s whose base fingerprint is non-empty; distinct by s'.",
		Plan: plan,
		Gen: func(w *core.Worker, u core.Unit, emit func(core.Case)) {
			if u.Gen == "sites" {
				s := sqlCaseSites[u.Lo]
				ex := sqlCaseExempt(s)
				skip := func(i int) bool { return ex[i] }
				k := gen.CountLetters(s, skip)
				if k <= 12 {
					for m := uint64(0); m < 1<<uint(k); m++ {
						emit(core.Case{In: s, Kind: "mask", A: int64(m)})
					}
				} else {
					r := core.NewRng(w.R.Seed, "c10site", s)
					n := 4096
					if u.Arg == "thorough" {
						n = 65536
					}
					for i := 0; i < n; i++ {
						emit(core.Case{In: s, Kind: "mask", A: int64(r.U64())})
					}
					emit(core.Case{In: s, Kind: "mask", A: 0})
					emit(core.Case{In: s, Kind: "mask", A: -1})
				}
				return
			}
			each := func(c core.Case) {
				if len(c.In) > 4096 {
					return
				}
				h := core.Hash64(c.In)
				for _, m := range []uint64{0, ^uint64(0), 0xAAAAAAAAAAAAAAAA, 0x5555555555555555, h, h * 0x9e3779b97f4a7c15, ^h, h >> 7} {
					emit(core.Case{In: c.In, Kind: "mask", A: int64(m)})
				}
			}
			if u.Gen == "alias" {
				// long inputs: a word, padding up to a power-of-two distance, then a
				// keyword of the same length (an offset kept in 8 or 16 bits aliases)
				cs := c10AliasCases()
				for i := u.Lo; i < u.Hi && i < uint64(len(cs)); i++ {
					for _, m := range []uint64{0, ^uint64(0), 0xAAAAAAAAAAAAAAAA, 0x5555555555555555} {
						emit(core.Case{In: cs[i], Kind: "mask", A: int64(m)})
					}
				}
				return
			}
			if u.Gen == "kwframes" {
				// every key of the live table (all letters a-z occur) in the
				// sentence frames that route it through each look-up site
				genKeywordContexts(u.Arg == "thorough", each)
				return
			}
			sqlGen(w, u, each)
		},
		One: func(w *core.Worker, c core.Case) {
			s := c.In
			ex := sqlCaseExempt(s)
			s2 := gen.FlipCase(s, uint64(c.A), func(i int) bool { return ex[i] })
			w.Eval(1)
			if s2 == s {
				return
			}
			if len(s) <= 4096 {
				// the same input with bit 5 flipped in '_' and digits (what a
				// byte-wise |0x20 or &^0x20 "case fold" would also identify with it)
				// is asked first: a look-up that remembers answers under such a
				// key then answers the two spellings from different sources
				if tw := twin5(s); tw != s {
					li.IsSQLi(tw)
				}
			}
			b1, f1 := li.IsSQLi(s)
			b2, f2 := li.IsSQLi(s2)
			if b1 != b2 || f1 != f2 {
				w.Violate("case-sensitive", fmt.Sprintf("IsSQLi(%q) = (%v,%q) but IsSQLi(%q) = (%v,%q)", trunc(s, 200), b1, f1, trunc(s2, 200), b2, f2))
				return
			}
			w.Count("pairs_compared", 1)
			if b1 {
				w.Count("pairs_with_true_verdict", 1)
				w.Nontrivial(s2)
				w.Observe("fingerprints", f1)
			} else if p := li.VerifSQLPassOn(s, sqlModes[0]); len(p.Fingerprint) > 1 {
				w.Nontrivial(s2)
			}
			w.Sample(s2)
		},
		Explain: func(c core.Case) string {
			ex := sqlCaseExempt(c.In)
			s2 := gen.FlipCase(c.In, uint64(c.A), func(i int) bool { return ex[i] })
			return fmt.Sprintf("s  = %q\n%ss' = %q\n%s", c.In, explainCascadeOf(c.In), s2, explainCascadeOf(s2))
		},
		Assumptions: []string{"exempt positions are decided syntactically on the raw bytes and over-approximated"},
	}
}

// htmlCaseSites: seeds hinging on each HTML normalisation site.
var htmlCaseSites = []string{
	// real-world markup whose values a false-positive exemption might compare literally
	"<html xmlns=\"http://www.w3.org/1999/xhtml\">", "<svg xmlns=\"http://www.w3.org/2000/svg\">", "<math xmlns=\"http://www.w3.org/1998/Math/MathML\">", "<svg xmlns:xlink=\"http://www.w3.org/1999/xlink\">",
	"<?xml version=\"1.0\" encoding=\"utf-8\"?><note>hi</note>", "<?xml-stylesheet type=\"text/xsl\" href=\"a.xsl\"?>", "<meta name=viewport content=1>", "<meta charset=utf-8>", "<meta http-equiv=refresh content=5>",
	"<!DOCTYPE html PUBLIC \"-//W3C//DTD XHTML 1.0 Strict//EN\" \"http://www.w3.org/TR/xhtml1/DTD/xhtml1-strict.dtd\">", "<link rel=stylesheet href=a.css>", "<base href=/ target=_blank>", "<style type=text/css>", "<script type=text/javascript src=a.js>",
	"<link rel=\"shortcut icon\" href=\"/favicon.ico\">", "<link rel=\"alternate stylesheet\" href=a.css>", "<link rel=\"icon apple-touch-icon\" href=a.png>", "<meta name=\"robots\" content=\"noindex, nofollow\">", "<a rel=\"noopener noreferrer\" href=x>",
	"<iframe sandbox=\"allow-scripts allow-forms\">", "<input type=\"hidden\" name=a>", "<script type=\"application/ld+json\">", "<meta http-equiv=\"Content-Type\" content=\"text/html; charset=UTF-8\">", "<base target=\"_blank\">",
	"<embed type=\"application/x-shockwave-flash\">", "<object classid=\"clsid:D27CDB6E\">", "<style media=\"screen and (min-width:1px)\">", "<link rel=preload as=font>", "<meta property=\"og:title\" content=x>",
	"<iframe sandbox src=about:blank>", "<object type=application/pdf data=a.pdf>", "<embed type=image/svg+xml src=a.svg>", "<a href=mailto:a@b.c>", "<a href=tel:123>", "<form method=post action=/login>", "<img src=data:image/gif;base64,R0lGOD>",
	"<a xmlns:x=y x:href=javascript:x>", "<svg xmlns:q=x><a q:href=data:x>", "<a x:href=java>", "<set attributename=fill to=java>", "<p><plaintext><a href=java>", "<plaintext><svt>", "<meta content=\"0;url=java\">",
	"</z a=`x`>", "<z x=\"<svt>\">", "</q><svt>", "<j k=`>", "<zz y='<xss>'>",
	"<script>", "<iframe src=x>", "<embed>", "<object>", "<meta>", "<link>", "<style>", "<applet>", "<base>", "<frameset>", "<noscript>", "<isindex>", "<svt>", "<xsl>", "<xml>", "<xss>", "<import>", "<vmlframe>", "<listener>", "<handler>", "<comment>",
	"<a onclick=x>", "<a onerror=x>", "<a onresize=x>", "<a onzoom=x>", "<a onpointerenter=x>", "x onmouseover=y", "x' onload=y", "<a style=x>", "<a filter=x>", "<a xmlns=x>", "<a xlink=x>", "<a datasrc=x>", "<a dataformatas=x>",
	"<a href=javascript:x>", "<a href=vbscript:x>", "<a href=data:x>", "<a href=view-source:x>", "<a src=java>", "<form action=javascript:x>", "<a xlink:href=data:x>", "<a by=data:x>", "<a to=java>", "<a from=vbscript:>", "<a poster=data:>",
	"<a lowsrc=java>", "<a dynsrc=java>", "<a background=java>", "<a folder=java>", "<a formaction=java>", "<a handler=java>", "<a values=java>", "<set attributename=onclick>", "<set attributename=xmlns>",
	"<a href=&#x6a;avascript:x>", "<a href=&#X6A;avascript:x>", "<a href=&#x6A;&#x41;&#x56;&#x41;>", "<a href=&#xa;java>", "<a href=d&#x61;ta:>", "<a href=&#106;&#97;&#118;&#97;>",
	"<!doctype html>", "<!DOCTYPE", "<!entity x>", "<!ENTITY % x>", "<?import x>", "<?xml x>", "<!--[if x]>", "<!--[IF IE]>x<![endif]-->", "<%xml %>",
	"x\" onclick=y", "x` onclick=y", "onerror=alert(1)>", "'><script>", "</script>", "</iframe x", "<a b=c onclick=d>", "<img/src/onerror=x>",
	// real-world continuations of the schemes
	"<a href=data:image/svg+xml,x>", "<img src=data:image/png;base64,x>", "<a href=data:text/html;base64,x>", "<a href=javascript:alert(1)//>", "<a href=vbscript:msgbox(1)>", "<a href=view-source:http://x/>", "<a href=data:application/xhtml+xml,x>",
	// named character references inside schemes (literal text for this decoder, whatever their letter case)
	"<a href=ja&NewLine;vascript:x>", "<a href=java&Tab;script:x>", "<a href=javascript&colon;x>", "<a href=d&NewLine;ata:x>", "<a href=&Tab;javascript:x>", "<a href=vbs&NewLine;cript:x>",
	// elements with their own tokenizer content model in HTML5 (what a "more conformant" tokenizer would special-case), followed by a trigger
	"<plaintext><script>", "<textarea><script>", "<title><script>", "<xmp><script>", "<noembed><script>", "<noframes><script>", "<noscript><script>", "<template><script>", "<select><script>", "<math><script>", "<svg><script>",
	"<plaintext>x' onclick=y", "<textarea>' onerror=x ", "<title></title><iframe>", "<xmp></xmp><a onclick=x>", "</plaintext><script>", "</textarea><style>", "<script></script><embed>", "<style></style><base>",
}

// C11 — XSS is insensitive to letter case and to NULs inside names.
func c11() *core.Check {
	plan := func(tier string, seed uint64) []core.Unit {
		var us []core.Unit
		for i := range htmlCaseSites {
			us = append(us, core.Unit{Gen: "sites", Lo: uint64(i), Hi: uint64(i + 1), Arg: tier})
		}
		mixes := []Mix{{Gen: "corpus"}, {Gen: "bytes"}, {Gen: "atoms", Dict: "htmlfull", K: 2}, {Gen: "seq", Dict: "htmlfull", N: 150000}, {Gen: "mut", Dict: "htmlfull", N: 100000}, {Gen: "g04", N: 150000}}
		if tier == "thorough" {
			mixes = []Mix{{Gen: "corpus"}, {Gen: "bytes"}, {Gen: "trunc"}, {Gen: "atoms", Dict: "htmlfull", K: 3}, {Gen: "seq", Dict: "htmlfull", N: 2500000}, {Gen: "mut", Dict: "htmlfull", N: 2000000}, {Gen: "novel", Dict: "htmlfull", N: 1000000}, {Gen: "g04", N: 2500000}}
		}
		mixes = append(mixes, Mix{Gen: "attrvals"}, Mix{Gen: "nsattrs"}, Mix{Gen: "elements"})
		return append(us, planMix(htmlDomain, mixes)...)
	}
	hasCData := func(s string) bool {
		b := []byte(s)
		for i, c := range b {
			if c >= 'A' && c <= 'Z' {
				b[i] = c + 0x20
			}
		}
		return strings.Contains(string(b), "[cdata[")
	}
	return &core.Check{
		ID: "C11",
		Rule: "(a) case: HTML case-site catalogue (every black tag, event, attribute, scheme incl. entity-encoded letters and hex digits, doctype, [if, import, entity, xml, &#x) with ALL 2^k masks for k <= 12 letters (4096 random beyond), and every other HTML workload input (incl. the XSS grammar) with 8 masks; inputs holding a case-variant of [CDATA[ are skipped; oracle IsXSS(s') = IsXSS(s). " +
			"(b) NUL: for every input, context and every tag-name-open / attribute-name token of that context's token stream, a NUL is inserted at every position strictly inside the token (plus double insertions, and runs of 8/64/300 NULs after the first and before the last byte); oracle: that context's verdict is unchanged. Non-trivial = compared pairs whose base verdict is true, or NUL insertions into names of >= 2 bytes; distinct by transformed input.",
		Plan: plan,
		Gen: func(w *core.Worker, u core.Unit, emit func(core.Case)) {
			if u.Gen == "sites" {
				s := htmlCaseSites[u.Lo]
				k := gen.CountLetters(s, nil)
				if k <= 12 {
					for m := uint64(0); m < 1<<uint(k); m++ {
						emit(core.Case{In: s, Kind: "mask", A: int64(m)})
					}
				} else {
					r := core.NewRng(w.R.Seed, "c11site", s)
					n := 4096
					if u.Arg == "thorough" {
						n = 65536
					}
					for i := 0; i < n; i++ {
						emit(core.Case{In: s, Kind: "mask", A: int64(r.U64())})
					}
					emit(core.Case{In: s, Kind: "mask", A: 0})
					emit(core.Case{In: s, Kind: "mask", A: -1})
				}
				emit(core.Case{In: s, Kind: "nul"})
				return
			}
			htmlGen(w, u, func(c core.Case) {
				if len(c.In) > 2048 {
					return
				}
				h := core.Hash64(c.In)
				for _, m := range []uint64{0, ^uint64(0), 0xAAAAAAAAAAAAAAAA, 0x5555555555555555, h, ^h, h * 0x9e3779b97f4a7c15, h >> 9} {
					emit(core.Case{In: c.In, Kind: "mask", A: int64(m)})
				}
				emit(core.Case{In: c.In, Kind: "nul"})
			})
		},
		One: func(w *core.Worker, c core.Case) {
			s := c.In
			w.Eval(1)
			if c.Kind == "mask" {
				if hasCData(s) {
					w.Count("skipped_cdata", 1)
					return
				}
				s2 := gen.FlipCase(s, uint64(c.A), nil)
				if s2 == s {
					return
				}
				v1, v2 := li.IsXSS(s), li.IsXSS(s2)
				if v1 != v2 {
					w.Violate("case-sensitive", fmt.Sprintf("IsXSS(%q) = %v but IsXSS(%q) = %v", trunc(s, 200), v1, trunc(s2, 200), v2))
					return
				}
				w.Count("case_pairs_compared", 1)
				if v1 {
					w.Nontrivial(s2)
					w.Count("case_pairs_true", 1)
				}
				w.Sample(s2)
				return
			}
			// NUL insertion inside name tokens, per context
			for ci, ctx := range h5Ctxs {
				toks, capped := li.VerifH5Tokens(s, ctx, len(s)+2)
				if capped {
					continue
				}
				base := li.VerifXSSCtx(s, ctx)
				for _, t := range toks {
					if (t.Type != 1 && t.Type != 6) || t.Len < 2 || t.Off < 0 || t.Off+t.Len > len(s) {
						continue
					}
					for p := t.Off + 1; p < t.Off+t.Len; p++ {
						s2 := s[:p] + "\x00" + s[p:]
						if got := li.VerifXSSCtx(s2, ctx); got != base {
							w.SetCur(core.Case{In: s, Kind: "nul", A: int64(p), B: int64(ci)})
							w.Violate("nul-sensitive", fmt.Sprintf("context %s: verdict(%q) = %v, with a NUL inserted at offset %d inside the %s token %q it is %v", h5CtxNames[ci], trunc(s, 200), base, p, h5TypeName(t.Type), s[t.Off:t.Off+t.Len], got))
							w.SetCur(c)
							return
						}
						w.Count("nul_insertions", 1)
						w.Eval(1)
						if base {
							w.Nontrivial(fmt.Sprintf("%d|%s", ci, s2))
						} else if t.Len >= 3 {
							w.Nontrivial(fmt.Sprintf("%d|%s", ci, s2))
						}
						// a long NUL run at one interior position per token (a length
						// limit applied before NUL stripping would show here)
						if p == t.Off+1 || p == t.Off+t.Len-1 {
							for _, run := range []int{8, 64, 300} {
								s4 := s[:p] + strings.Repeat("\x00", run) + s[p:]
								w.Eval(1)
								if got := li.VerifXSSCtx(s4, ctx); got != base {
									w.SetCur(core.Case{In: s, Kind: "nul", A: int64(p), B: int64(ci)})
									w.Violate("nul-sensitive", fmt.Sprintf("context %s: verdict(%q) = %v, with %d NULs inserted at offset %d inside the %s token %q it is %v", h5CtxNames[ci], trunc(s, 200), base, run, p, h5TypeName(t.Type), s[t.Off:t.Off+t.Len], got))
									w.SetCur(c)
									return
								}
							}
						}
						// double insertion on a sample
						if (p+t.Len)%3 == 0 && p+1 < t.Off+t.Len {
							s3 := s2[:p+2] + "\x00\x00" + s2[p+2:]
							if got := li.VerifXSSCtx(s3, ctx); got != base {
								w.Violate("nul-sensitive", fmt.Sprintf("context %s: verdict(%q) = %v, with NULs inserted (%q) it is %v", h5CtxNames[ci], trunc(s, 200), base, trunc(s3, 200), got))
								return
							}
						}
					}
				}
			}
		},
		Explain: func(c core.Case) string {
			if c.Kind == "mask" {
				s2 := gen.FlipCase(c.In, uint64(c.A), nil)
				return fmt.Sprintf("s:\n%ss' = %q:\n%s", explainXSS(c.In), s2, explainXSS(s2))
			}
			return explainXSS(c.In)
		},
	}
}
