// Package refhtml is an independently written executable specification of
// libinjection's HTML5 tokenizer state machine and of its XSS classification
// rules. It shares no code with the library under test: one explicit state
// enum and one loop instead of method values, cursor scanning with
// "first terminator" helpers instead of search-and-restart, byte-string
// semantics throughout. The black lists are passed in (the monitors pass the
// library's own live lists), so list edits never produce conformance noise.
//
// Spec decisions taken from the port (DESIGN.md §5) are marked SPEC-DECISION.
package refhtml

import "strings"

// Token types (numbering of the library).
const (
	DataText = iota
	TagNameOpen
	TagNameClose
	TagNameSelfClose
	TagData
	TagClose
	AttrName
	AttrValue
	TagComment
	DocType
)

// Start contexts.
const (
	CtxData = iota
	CtxNoQuote
	CtxSingleQuote
	CtxDoubleQuote
	CtxBackQuote
)

type Token struct {
	Type int
	Off  int
	Len  int
}

type state int

const (
	stData state = iota
	stEOF
	stTagOpen
	stEndTagOpen
	stTagName
	stTagNameClose
	stSelfClosing
	stBeforeAttrName
	stAttrName
	stAfterAttrName
	stBeforeAttrValue
	stValueNoQuote
	stValueSingle
	stValueDouble
	stValueBack
	stAfterValueQuoted
	stMarkupDecl
	stBogusComment
	stPercentComment
	stComment
	stCData
	stDoctype
)

// tag-name / attribute white space (no NUL)
func white(c byte) bool {
	return c == ' ' || c == '\t' || c == '\n' || c == '\v' || c == '\f' || c == '\r'
}

// white space skipped between attributes: the above plus NUL
func skippable(c byte) bool { return c == 0 || white(c) }

func alpha(c byte) bool { return c >= 'a' && c <= 'z' || c >= 'A' && c <= 'Z' }

// first occurrence of byte c at or after i; -1 if none
func findByte(s string, i int, c byte) int {
	for ; i < len(s); i++ {
		if s[i] == c {
			return i
		}
	}
	return -1
}

// firstSeq: first occurrence of the byte sequence t at or after i.
func firstSeq(s string, i int, t string) int {
	for ; i+len(t) <= len(s); i++ {
		if s[i:i+len(t)] == t {
			return i
		}
	}
	return -1
}

// commentEnd: first '-' NUL* ('-'|'!') '>' at or after i. Returns the index
// of that dash and the index right after the '>' ; (-1,-1) if none.
func commentEnd(s string, i int) (int, int) {
	for ; i < len(s); i++ {
		if s[i] != '-' {
			continue
		}
		j := i + 1
		for j < len(s) && s[j] == 0 {
			j++
		}
		if j+1 < len(s) && (s[j] == '-' || s[j] == '!') && s[j+1] == '>' {
			return i, j + 2
		}
	}
	return -1, -1
}

// Tokenize runs the state machine from start context ctx. It stops after
// limit tokens (capped=true).
func Tokenize(s string, ctx int, limit int) (toks []Token, capped bool) {
	n := len(s)
	pos := 0
	closing := false // inside an end tag
	var st state
	switch ctx {
	case CtxData:
		st = stData
	case CtxNoQuote:
		st = stBeforeAttrName
	case CtxSingleQuote:
		st = stValueSingle
	case CtxDoubleQuote:
		st = stValueDouble
	case CtxBackQuote:
		st = stValueBack
	default:
		return nil, false
	}
	emit := func(t, off, l int) { toks = append(toks, Token{t, off, l}) }
	// every iteration either emits exactly one token, moves to another state
	// without emitting, or stops
	for steps := 0; ; steps++ {
		if len(toks) >= limit {
			return toks, true
		}
		if steps > 4*n+64 {
			// cannot happen in a correct machine; treated as capped
			return toks, true
		}
		switch st {
		case stEOF:
			return toks, false

		case stData:
			lt := findByte(s, pos, '<')
			if lt < 0 {
				st = stEOF
				if n-pos == 0 {
					return toks, false
				}
				emit(DataText, pos, n-pos)
				continue
			}
			start := pos
			pos = lt + 1
			st = stTagOpen
			if lt > start {
				emit(DataText, start, lt-start)
			}

		case stTagOpen:
			if pos >= n {
				return toks, false
			}
			c := s[pos]
			switch {
			case c == '!':
				pos++
				st = stMarkupDecl
			case c == '/':
				pos++
				closing = true
				st = stEndTagOpen
			case c == '?':
				pos++
				st = stBogusComment
			case c == '%':
				pos++
				st = stPercentComment
			case alpha(c) || c == 0:
				// a start tag begins: the end-tag flag of an earlier "</p >",
				// "</a b=c>" or "</>" does not carry over (defect D8, repaired)
				closing = false
				st = stTagName
			default:
				if pos == 0 {
					st = stData
				} else {
					emit(DataText, pos-1, 1) // the '<' itself is text
					st = stData
				}
			}

		case stEndTagOpen:
			if pos >= n {
				return toks, false
			}
			c := s[pos]
			switch {
			case c == '>':
				st = stData // "</>": nothing emitted; the closing flag stays set until the next start tag
			case alpha(c):
				st = stTagName
			default:
				closing = false
				st = stBogusComment
			}

		case stTagName:
			p := pos
			done := false
			for p < n && !done {
				c := s[p]
				switch {
				case c == 0:
					p++ // NULs inside tag names are tolerated
				case white(c):
					emit(TagNameOpen, pos, p-pos)
					pos = p + 1
					st = stBeforeAttrName
					done = true
				case c == '/':
					emit(TagNameOpen, pos, p-pos)
					pos = p + 1
					st = stSelfClosing
					done = true
				case c == '>':
					if closing {
						emit(TagClose, pos, p-pos)
						pos = p + 1
						closing = false
						st = stData
					} else {
						emit(TagNameOpen, pos, p-pos)
						pos = p
						st = stTagNameClose
					}
					done = true
				default:
					p++
				}
			}
			if !done {
				emit(TagNameOpen, pos, n-pos)
				st = stEOF
			}

		case stTagNameClose:
			closing = false
			emit(TagNameClose, pos, 1)
			pos++
			if pos < n {
				st = stData
			} else {
				st = stEOF
			}

		case stSelfClosing:
			if pos >= n {
				return toks, false
			}
			if s[pos] == '>' {
				emit(TagNameSelfClose, pos-1, 2)
				pos++
				st = stData
			} else {
				st = stBeforeAttrName
			}

		case stBeforeAttrName:
			// skip white space and NULs; '/' not followed by '>' is skipped too
			stop := false
			moved := false
			for pos < n && !moved {
				for pos < n && skippable(s[pos]) {
					pos++
				}
				if pos >= n {
					stop = true
					break
				}
				switch s[pos] {
				case '/':
					pos++
					if pos < n && s[pos] != '>' {
						continue
					}
					st = stSelfClosing
					moved = true
				case '>':
					emit(TagNameClose, pos, 1)
					pos++
					st = stData
					moved = true
				default:
					st = stAttrName
					moved = true
				}
			}
			if stop || !moved {
				return toks, false
			}

		case stAttrName:
			// the first byte always belongs to the name
			p := pos + 1
			done := false
			for p < n && !done {
				c := s[p]
				switch {
				case white(c):
					emit(AttrName, pos, p-pos)
					pos = p + 1
					st = stAfterAttrName
					done = true
				case c == '/':
					emit(AttrName, pos, p-pos)
					pos = p + 1
					st = stSelfClosing
					done = true
				case c == '=':
					emit(AttrName, pos, p-pos)
					pos = p + 1
					st = stBeforeAttrValue
					done = true
				case c == '>':
					emit(AttrName, pos, p-pos)
					pos = p
					st = stTagNameClose
					done = true
				default:
					p++
				}
			}
			if !done {
				emit(AttrName, pos, n-pos)
				pos = n
				st = stEOF
			}

		case stAfterAttrName:
			for pos < n && skippable(s[pos]) {
				pos++
			}
			if pos >= n {
				return toks, false
			}
			switch s[pos] {
			case '/':
				pos++
				st = stSelfClosing
			case '=':
				pos++
				st = stBeforeAttrValue
			case '>':
				st = stTagNameClose
			default:
				st = stAttrName
			}

		case stBeforeAttrValue:
			for pos < n && skippable(s[pos]) {
				pos++
			}
			if pos >= n {
				return toks, false
			}
			switch s[pos] {
			case '"':
				st = stValueDouble
			case '\'':
				st = stValueSingle
			case '`':
				st = stValueBack
			default:
				st = stValueNoQuote
			}

		case stValueNoQuote:
			p := pos
			for p < n && !white(s[p]) && s[p] != '>' {
				p++
			}
			emit(AttrValue, pos, p-pos)
			switch {
			case p >= n:
				st = stEOF
			case s[p] == '>':
				pos = p
				st = stTagNameClose
			default:
				pos = p + 1
				st = stBeforeAttrName
			}

		case stValueSingle, stValueDouble, stValueBack:
			q := byte('\'')
			if st == stValueDouble {
				q = '"'
			} else if st == stValueBack {
				q = '`'
			}
			// a real opening quote is skipped; at offset 0 the quote is virtual
			if pos > 0 {
				pos++
			}
			e := findByte(s, pos, q)
			if e < 0 {
				emit(AttrValue, pos, n-pos)
				st = stEOF
			} else {
				emit(AttrValue, pos, e-pos)
				pos = e + 1
				st = stAfterValueQuoted
			}

		case stAfterValueQuoted:
			if pos >= n {
				return toks, false
			}
			c := s[pos]
			switch {
			case white(c):
				pos++
				st = stBeforeAttrName
			case c == '/':
				pos++
				st = stSelfClosing
			case c == '>':
				emit(TagNameClose, pos, 1)
				pos++
				st = stData
			default:
				st = stBeforeAttrName
			}

		case stMarkupDecl:
			rest := n - pos
			switch {
			case rest >= 7 && strings.ToLower(s[pos:pos+7]) == "doctype":
				st = stDoctype
			case rest >= 7 && s[pos:pos+7] == "[CDATA[":
				pos += 7
				st = stCData
			case rest >= 2 && s[pos:pos+2] == "--":
				pos += 2
				st = stComment
			default:
				st = stBogusComment
			}

		case stDoctype, stBogusComment:
			typ := TagComment
			if st == stDoctype {
				typ = DocType
			}
			gt := findByte(s, pos, '>')
			if gt < 0 {
				emit(typ, pos, n-pos)
				if typ == TagComment {
					pos = n
				}
				st = stEOF
			} else {
				emit(typ, pos, gt-pos)
				pos = gt + 1
				st = stData
			}

		case stPercentComment:
			e := firstSeq(s, pos, "%>")
			if e < 0 {
				emit(TagComment, pos, n-pos)
				pos = n
				st = stEOF
			} else {
				emit(TagComment, pos, e-pos)
				pos = e + 2
				st = stData
			}

		case stComment:
			d, after := commentEnd(s, pos)
			if d < 0 {
				emit(TagComment, pos, n-pos)
				st = stEOF
			} else {
				emit(TagComment, pos, d-pos)
				pos = after
				st = stData
			}

		case stCData:
			e := firstSeq(s, pos, "]]>")
			if e < 0 {
				emit(DataText, pos, n-pos)
				st = stEOF
			} else {
				emit(DataText, pos, e-pos)
				pos = e + 3
				st = stData
			}
		}
	}
}

// Attribute types.
const (
	AttrNone = iota
	AttrBlack
	AttrURL
	AttrStyle
	AttrIndirect
)

// Tables are the black lists the classification is evaluated over.
type Tables struct {
	Tags   map[string]bool
	Attrs  map[string]int
	Events map[string]int
}

func stripNul(s string) string {
	if strings.IndexByte(s, 0) < 0 {
		return s
	}
	b := make([]byte, 0, len(s))
	for i := 0; i < len(s); i++ {
		if s[i] != 0 {
			b = append(b, s[i])
		}
	}
	return string(b)
}

// normName: NULs removed, then upper-cased. SPEC-DECISION: the port folds
// with Go's Unicode-aware strings.ToUpper; the specification uses the same
// primitive so that e.g. U+017F folds to S.
func normName(s string) string { return strings.ToUpper(stripNul(s)) }

func (t *Tables) IsBlackTag(name string) bool {
	if len(name) < 3 {
		return false
	}
	u := normName(name)
	if t.Tags[u] {
		return true
	}
	// SPEC-DECISION: whole-name "SVT" / "XSL" (sic)
	return u == "SVT" || u == "XSL"
}

func (t *Tables) IsBlackAttr(name string) int {
	u := normName(name)
	if len(u) < 2 {
		return AttrNone
	}
	if len(u) >= 5 {
		if u == "XMLNS" || u == "XLINK" {
			return AttrBlack
		}
		if u[0] == 'O' && u[1] == 'N' {
			if ty, ok := t.Events[u[2:]]; ok {
				return ty
			}
		}
	}
	if ty, ok := t.Attrs[u]; ok {
		return ty
	}
	return AttrNone
}

// Decode is the character-reference decoder specification: (value, consumed).
func Decode(s string) (int, int) {
	if len(s) == 0 {
		return -1, 0
	}
	if s[0] != '&' {
		return int(s[0]), 1
	}
	if len(s) < 3 || s[1] != '#' {
		return '&', 1
	}
	base, i := 10, 2
	if s[2] == 'x' || s[2] == 'X' {
		base, i = 16, 3
	}
	dig := func(c byte) int {
		switch {
		case c >= '0' && c <= '9':
			return int(c - '0')
		case base == 16 && c >= 'a' && c <= 'f':
			return int(c-'a') + 10
		case base == 16 && c >= 'A' && c <= 'F':
			return int(c-'A') + 10
		}
		return -1
	}
	if i >= len(s) || dig(s[i]) < 0 {
		return '&', 1
	}
	v := 0
	for ; i < len(s); i++ {
		if s[i] == ';' {
			return v, i + 1
		}
		d := dig(s[i])
		if d < 0 {
			return v, i
		}
		v = v*base + d
		if v > 0x1000FF {
			return '&', 1
		}
	}
	return v, i
}

var schemes = []string{"DATA", "VIEW-SOURCE", "VBSCRIPT", "JAVA"}

// IsBlackURL: leading bytes <= 0x20 or >= 0x7f are dropped, the rest is
// decoded reference by reference, decoded leading values <= 32 are dropped,
// NUL and LF are dropped everywhere, letters are upper-cased, values are
// reduced to their low byte. SPEC-DECISION: the scheme test is "contains".
func IsBlackURL(v string) bool {
	i := 0
	for i < len(v) && (v[i] <= 0x20 || v[i] >= 0x7f) {
		i++
	}
	v = v[i:]
	norm := make([]byte, 0, len(v))
	leading := true
	for p := 0; p < len(v); {
		c, used := Decode(v[p:])
		p += used
		if leading && c <= 32 {
			continue
		}
		leading = false
		if c == 0 || c == 10 {
			continue
		}
		if c >= 'a' && c <= 'z' {
			c -= 0x20
		}
		norm = append(norm, byte(c))
	}
	ns := string(norm)
	for _, sc := range schemes {
		if strings.Contains(ns, sc) {
			return true
		}
	}
	return false
}

// IsXSS is the per-context verdict.
func (t *Tables) IsXSS(s string, ctx int) bool {
	toks, _ := Tokenize(s, ctx, len(s)+2)
	attr := AttrNone
	for _, k := range toks {
		text := s[k.Off : k.Off+k.Len]
		if k.Type != AttrValue {
			attr = AttrNone
		}
		switch k.Type {
		case DocType:
			return true
		case TagNameOpen:
			if t.IsBlackTag(text) {
				return true
			}
		case AttrName:
			attr = t.IsBlackAttr(text)
		case AttrValue:
			switch attr {
			case AttrBlack, AttrStyle:
				return true
			case AttrURL:
				if IsBlackURL(text) {
					return true
				}
			case AttrIndirect:
				// SPEC-DECISION: only names of type black count
				if t.IsBlackAttr(text) == AttrBlack {
					return true
				}
			}
			attr = AttrNone
		case TagComment:
			if strings.IndexByte(text, '`') >= 0 {
				return true
			}
			if len(text) > 3 {
				if text[0] == '[' && strings.ToUpper(text[1:3]) == "IF" {
					return true
				}
				if strings.ToUpper(text[0:3]) == "XML" {
					return true
				}
			}
			if len(text) > 5 {
				u := strings.ToUpper(stripNul(text[:6]))
				if u == "IMPORT" || u == "ENTITY" {
					return true
				}
			}
		}
	}
	return false
}

// IsXSSAny is the OR over the five contexts.
func (t *Tables) IsXSSAny(s string) bool {
	for c := CtxData; c <= CtxBackQuote; c++ {
		if t.IsXSS(s, c) {
			return true
		}
	}
	return false
}
