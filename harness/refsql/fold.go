package refsql

import "strings"

// Pass is one parsing context evaluated on fresh state.
type Pass struct {
	// Hit, when set, is told the name of every folding / whitelist rule that
	// fires (the reference is instrumented, the library is not).
	Hit   func(rule string)
	S     string
	M     Mode
	KW    Lookup
	lx    *Lexer
	V     [8]Token
	Folds int
	FP    string
	NFold int // number of folded tokens
}

func (p *Pass) hit(rule string) {
	if p.Hit != nil {
		p.Hit(rule)
	}
}

func upperEq(want, got string) bool { return strings.ToUpper(got) == want }

func unary(t *Token) bool {
	if t.Cat != 'o' {
		return false
	}
	switch t.Len {
	case 1:
		return t.Val[0] == '+' || t.Val[0] == '-' || t.Val[0] == '!' || t.Val[0] == '~'
	case 2:
		return t.Val == "!!"
	case 3:
		return upperEq("NOT", t.Val)
	}
	return false
}

func arithmetic(t *Token) bool {
	return t.Cat == 'o' && t.Len == 1 && inSet(t.Val[0], "*/+-%")
}

func isAny(c byte, set string) bool { return strings.IndexByte(set, c) >= 0 }

// merge: two adjacent words that form a known phrase become one token.
func (p *Pass) merge(a, b *Token) bool {
	if !isAny(a.Cat, "knoUfETt") || !isAny(b.Cat, "knoUfETt&") {
		return false
	}
	if a.Len+b.Len+1 > tokenCap {
		return false
	}
	phrase := a.Val[:a.Len] + " " + b.Val[:b.Len]
	c := p.KW(phrase)
	if c == 0 {
		return false
	}
	l := len(phrase)
	if l >= tokenCap {
		l = tokenCap - 1
	}
	a.Cat, a.Len, a.Val = c, l, phrase[:l]
	return true
}

var pseudoFunctions = []string{"USER_ID", "USER_NAME", "DATABASE", "PASSWORD", "USER", "CURRENT_USER", "CURRENT_DATE", "CURRENT_TIME", "CURRENT_TIMESTAMP", "LOCALTIME", "LOCALTIMESTAMP"}

// pull reads tokens into V[pos...] until want tokens are pending after left.
// Comments are remembered and dropped.
func (p *Pass) pull(pos *int, left int, want int, more *bool, lastComment *Token) {
	for *more && *pos <= maxTokens && *pos-left < want {
		t, ok := p.lx.Next()
		*more = ok
		if ok {
			p.V[*pos] = t
			if t.Cat == 'c' {
				*lastComment = t
			} else {
				lastComment.Cat = 0
				*pos++
			}
		} else {
			p.V[*pos] = Token{}
		}
	}
}

// Fold tokenizes and folds, leaving at most five tokens in V; returns their number.
func (p *Pass) Fold() int {
	p.lx = &Lexer{S: p.S, M: p.M, KW: p.KW}
	v := &p.V
	var lastComment Token
	more := true
	// leading comments, '(' , types and unary operators are dropped
	for more {
		t, ok := p.lx.Next()
		more = ok
		v[0] = t
		if !(t.Cat == 'c' || t.Cat == '(' || t.Cat == 't' || unary(&t)) {
			break
		}
	}
	if !more {
		return 0
	}
	pos, left := 1, 0
	for {
		if pos >= maxTokens {
			c := func(i int) byte { return v[i].Cat }
			if (c(0) == '1' && (c(1) == 'o' || c(1) == ',') && c(2) == '(' && c(3) == '1' && c(4) == ')') ||
				(c(0) == 'n' && c(1) == 'o' && c(2) == '(' && (c(3) == 'n' || c(3) == '1') && c(4) == ')') ||
				(c(0) == '1' && c(1) == ')' && c(2) == ',' && c(3) == '(' && c(4) == '1') ||
				(c(0) == 'n' && c(1) == ')' && c(2) == 'o' && c(3) == '(' && c(4) == 'n') {
				p.hit("fold5:special-case")
				if pos > maxTokens {
					v[1] = v[5]
					pos, left = 2, 0
				} else {
					pos, left = 1, 0
				}
			}
		}
		if !more || left >= maxTokens {
			left = pos
			break
		}
		p.pull(&pos, left, 2, &more, &lastComment)
		if pos-left < 2 {
			left = pos
			continue
		}
		a, b := &v[left], &v[left+1]
		// ---- two-token rules -------------------------------------------
		switch {
		case a.Cat == 's' && b.Cat == 's':
			p.hit("fold2:s.s")
			pos--
			p.Folds++
			continue
		case a.Cat == ';' && b.Cat == ';':
			p.hit("fold2:;.;")
			pos--
			p.Folds++
			continue
		case (a.Cat == 'o' || a.Cat == '&') && (unary(b) || b.Cat == 't'):
			p.hit("fold2:op.unary-or-type")
			pos--
			p.Folds++
			left = 0
			continue
		case a.Cat == '(' && unary(b):
			p.hit("fold2:(.unary")
			pos--
			p.Folds++
			if left > 0 {
				left--
			}
			continue
		case p.merge(a, b):
			p.hit("fold2:merge-phrase")
			pos--
			p.Folds++
			if left > 0 {
				left--
			}
			continue
		case a.Cat == ';' && b.Cat == 'f' && len(b.Val) >= 2 && (b.Val[0] == 'I' || b.Val[0] == 'i') && (b.Val[1] == 'F' || b.Val[1] == 'f'):
			p.hit("fold2:;IF->T")
			b.Cat = 'T'
			continue
		case (a.Cat == 'n' || a.Cat == 'v') && b.Cat == '(' && isPseudoFunction(a.Val[:a.Len]):
			p.hit("fold2:pseudo-function")
			a.Cat = 'f'
			continue
		case a.Cat == 'k' && (upperEq("IN", a.Val[:a.Len]) || upperEq("NOT IN", a.Val[:a.Len])):
			p.hit("fold2:IN")
			if b.Cat == '(' {
				a.Cat = 'o'
			} else {
				a.Cat = 'n'
			}
			continue
		case a.Cat == 'o' && (upperEq("LIKE", a.Val[:a.Len]) || upperEq("NOT LIKE", a.Val[:a.Len])):
			p.hit("fold2:LIKE")
			if b.Cat == '(' {
				a.Cat = 'f'
			}
			// falls through to the three-token rules
		case a.Cat == 't' && isAny(b.Cat, "n1t(fvs"):
			p.hit("fold2:type.x")
			*a = *b
			pos--
			p.Folds++
			left = 0
			continue
		case a.Cat == 'A' && b.Cat == 'n':
			p.hit("fold2:collate")
			if strings.IndexByte(b.Val, '_') >= 0 {
				b.Cat = 't'
				left = 0
			}
			// falls through
		case a.Cat == '\\':
			p.hit("fold2:backslash")
			if arithmetic(b) {
				a.Cat = '1'
			} else {
				*a = *b
				pos--
				p.Folds++
			}
			left = 0
			continue
		case a.Cat == '(' && b.Cat == '(':
			p.hit("fold2:((")
			pos--
			left = 0
			p.Folds++
			continue
		case a.Cat == ')' && b.Cat == ')':
			p.hit("fold2:))")
			pos--
			left = 0
			p.Folds++
			continue
		case a.Cat == '{' && b.Cat == 'n':
			p.hit("fold2:{n")
			if b.Len == 0 {
				b.Cat = 'X'
				return left + 2
			}
			left = 0
			pos -= 2
			p.Folds += 2
			continue
		case b.Cat == '}':
			p.hit("fold2:}")
			pos--
			left = 0
			p.Folds++
			continue
		}
		// ---- three-token rules -----------------------------------------
		p.pull(&pos, left, 3, &more, &lastComment)
		if pos-left < 3 {
			left = pos
			continue
		}
		a, b = &v[left], &v[left+1]
		c := &v[left+2]
		switch {
		case a.Cat == '1' && b.Cat == 'o' && c.Cat == '1':
			p.hit("fold3:1o1")
			pos -= 2
			left = 0
			continue
		case a.Cat == 'o' && b.Cat != '(' && c.Cat == 'o':
			p.hit("fold3:oxo")
			pos -= 2
			left = 0
			continue
		case a.Cat == '&' && c.Cat == '&':
			p.hit("fold3:&x&")
			pos -= 2
			left = 0
			continue
		case a.Cat == 'v' && b.Cat == 'o' && isAny(c.Cat, "v1n"):
			p.hit("fold3:vo*")
			pos -= 2
			left = 0
			continue
		case isAny(a.Cat, "n1") && b.Cat == 'o' && isAny(c.Cat, "1n"):
			p.hit("fold3:non")
			pos -= 2
			left = 0
			continue
		case isAny(a.Cat, "n1vs") && b.Cat == 'o' && b.Val[:b.Len] == "::" && c.Cat == 't':
			p.hit("fold3:::type")
			pos -= 2
			left = 0
			p.Folds += 2
			continue
		case isAny(a.Cat, "n1sv") && b.Cat == ',' && isAny(c.Cat, "1nsv"):
			p.hit("fold3:x,x")
			pos -= 2
			left = 0
			continue
		case isAny(a.Cat, "EB,") && unary(b) && c.Cat == '(':
			p.hit("fold3:E.unary.(")
			*b = *c
			pos--
			left = 0
			continue
		case isAny(a.Cat, "kEB") && unary(b) && isAny(c.Cat, "1nvsf"):
			p.hit("fold3:k.unary.x")
			*b = *c
			pos--
			left = 0
			continue
		case a.Cat == ',' && unary(b) && isAny(c.Cat, "1nvs"):
			p.hit("fold3:,.unary.x")
			*b = *c
			left = 0
			pos -= 3
			continue
		case a.Cat == ',' && unary(b) && c.Cat == 'f':
			p.hit("fold3:,.unary.f")
			*b = *c
			pos--
			left = 0
			continue
		case a.Cat == 'n' && b.Cat == '.' && c.Cat == 'n':
			p.hit("fold3:n.n")
			pos -= 2
			left = 0
			continue
		case a.Cat == 'E' && b.Cat == '.' && c.Cat == 'n':
			p.hit("fold3:E.n")
			*b = *c
			pos--
			left = 0
			continue
		case a.Cat == 'f' && b.Cat == '(' && c.Cat != ')':
			p.hit("fold3:f(x")
			if upperEq("USER", a.Val[:a.Len]) {
				a.Cat = 'n'
			}
		}
		left++
	}
	if left < maxTokens && lastComment.Cat == 'c' {
		p.hit("fold:trailing-comment-restored")
		v[left] = lastComment
		left++
	}
	if left > maxTokens {
		left = maxTokens
	}
	return left
}

func isPseudoFunction(name string) bool {
	u := strings.ToUpper(name)
	for _, f := range pseudoFunctions {
		if u == f {
			return true
		}
	}
	return false
}

// Fingerprint folds and builds the fingerprint string.
func (p *Pass) Fingerprint() string {
	n := p.Fold()
	p.NFold = n
	v := &p.V
	// PHP back-tick comment: a trailing empty unclosed back-tick word is a comment
	if n > 2 && v[n-1].Cat == 'n' && v[n-1].Open == '`' && v[n-1].Len == 0 && v[n-1].Close == 0 {
		v[n-1].Cat = 'c'
		p.hit("fp:php-backtick-comment")
	}
	b := make([]byte, 0, n)
	for i := 0; i < n; i++ {
		if v[i].Cat == 'X' {
			p.hit("fp:evil-collapse")
			v[0].Cat = 'X'
			v[0].Val = "X"
			p.FP = "X"
			return p.FP
		}
		b = append(b, v[i].Cat)
	}
	p.FP = string(b)
	return p.FP
}

func asciiUpper(s string) string {
	b := []byte(s)
	for i, c := range b {
		if c >= 'a' && c <= 'z' {
			b[i] = c - 0x20
		}
	}
	return string(b)
}

// Blacklisted: "0"+upper(fingerprint) is a fingerprint entry of the table.
func (p *Pass) Blacklisted() bool {
	if len(p.FP) < 1 {
		return false
	}
	return p.KW("0"+asciiUpper(p.FP)) == 'F'
}

func first(s string) byte {
	if len(s) == 0 {
		return 0
	}
	return s[0]
}

// NotWhitelisted: false-positive reduction on a blacklisted fingerprint.
func (p *Pass) NotWhitelisted() bool {
	fp := p.FP
	n := len(fp)
	v := &p.V
	ntok := p.lx.NTok
	if n > 1 && fp[n-1] == 'c' && strings.Contains(p.S, "sp_password") {
		p.hit("wl:sp_password")
		return true
	}
	p.hit("wl:len" + string(rune('0'+n)))
	switch n {
	case 2:
		if fp[1] == 'U' {
			p.hit("wl:1U")
			return ntok != 2
		}
		if first(v[1].Val) == '#' {
			p.hit("wl:#comment")
			return false
		}
		if v[0].Cat == 'n' && v[1].Cat == 'c' && first(v[1].Val) != '/' {
			p.hit("wl:nc")
			return false
		}
		// SPEC-DECISION: a "1c" whose comment does not start with '/' is SQLi at once
		if v[0].Cat == '1' && v[1].Cat == 'c' && first(v[1].Val) != '/' {
			p.hit("wl:1c-eol")
			return true
		}
		if v[0].Cat == '1' && v[1].Cat == 'c' {
			p.hit("wl:1c-cstyle")
			if ntok > 2 {
				return true
			}
			at := func(i int) byte {
				if i < len(p.S) {
					return p.S[i]
				}
				return 0xff
			}
			ch := at(v[0].Len)
			if ch <= 32 {
				return true
			}
			if ch == '/' && at(v[0].Len+1) == '*' {
				return true
			}
			if ch == '-' && at(v[0].Len+1) == '-' {
				return true
			}
			return false
		}
		if v[1].Len > 2 && first(v[1].Val) == '-' {
			p.hit("wl:x-dashdash-text")
			return false
		}
	case 3:
		switch fp {
		case "sos", "s&s":
			p.hit("wl:sos")
			return v[0].Open == 0 && v[2].Close == 0 && v[0].Close == v[2].Open
		case "s&n", "n&1", "1&1", "1&v", "1&s":
			if ntok == 3 {
				p.hit("wl:s&n-exact3")
				return false
			}
		}
		if v[1].Cat == 'k' && (v[1].Len < 5 || !upperEq("INTO", v[1].Val[:4])) {
			p.hit("wl:xkx-not-into")
			return false
		}
	}
	return true
}

// Result of one pass.
type PassResult struct {
	FP          string
	Blacklisted bool
	Verdict     bool
	NTok        int
	Folds       int
	NDDX        int
	NHash       int
	V           [8]Token
	NFold       int
}

// RunPass evaluates one context on fresh state.
func RunPass(s string, m Mode, kw Lookup) PassResult { return RunPassTraced(s, m, kw, nil) }

// RunPassTraced is RunPass with a rule-hit callback.
func RunPassTraced(s string, m Mode, kw Lookup, hit func(string)) PassResult {
	p := &Pass{S: s, M: m, KW: kw, Hit: hit}
	p.Fingerprint()
	r := PassResult{FP: p.FP, NTok: p.lx.NTok, Folds: p.Folds, NDDX: p.lx.NDDX, NHash: p.lx.NHash, V: p.V, NFold: p.NFold}
	r.Blacklisted = p.Blacklisted()
	r.Verdict = r.Blacklisted && p.NotWhitelisted()
	return r
}

// FoldOnly runs Fold (no fingerprint post-processing).
func FoldOnly(s string, m Mode, kw Lookup) (toks []Token, ntok, folds, ddx, hash int) {
	p := &Pass{S: s, M: m, KW: kw}
	n := p.Fold()
	return append([]Token(nil), p.V[:n]...), p.lx.NTok, p.Folds, p.lx.NDDX, p.lx.NHash
}

// IsSQLi is the context cascade.
func IsSQLi(s string, kw Lookup) (bool, string) {
	if len(s) == 0 {
		return false, ""
	}
	try := func(m Mode) (PassResult, bool) {
		r := RunPass(s, m, kw)
		return r, r.Verdict
	}
	r, ok := try(Mode{0, false})
	if ok {
		return true, r.FP
	}
	if r.NDDX != 0 || r.NHash != 0 {
		if r2, ok := try(Mode{0, true}); ok {
			return true, r2.FP
		}
	}
	if strings.IndexByte(s, '\'') >= 0 {
		r, ok := try(Mode{'\'', false})
		if ok {
			return true, r.FP
		}
		if r.NDDX != 0 || r.NHash != 0 {
			if r2, ok := try(Mode{'\'', true}); ok {
				return true, r2.FP
			}
		}
	}
	if strings.IndexByte(s, '"') >= 0 {
		if r, ok := try(Mode{'"', true}); ok {
			return true, r.FP
		}
	}
	return false, ""
}
