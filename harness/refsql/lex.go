// Package refsql is an independently written executable specification of the
// libinjection SQLi algorithm: byte dispatch, literal / number / variable /
// comment lexing, folding rewrite rules, fingerprint, blacklist and whitelist
// decision, context cascade. It shares no code with the library under test:
// a class switch instead of a table of function values, cursor scanning with
// span helpers and explicit first-terminator loops, fresh state per pass.
// The keyword table is passed in (the monitors pass the library's live table).
//
// It is a byte-string specification: no C-string artefacts. Places where the
// Go port is followed although upstream C differs are marked SPEC-DECISION.
package refsql

import "strings"

const (
	maxTokens = 5
	tokenCap  = 32 // values are clipped to tokenCap-1 bytes
)

// Token is one SQL token.
type Token struct {
	Cat   byte
	Pos   int
	Len   int
	Val   string
	Open  byte
	Close byte
	Count int
	After int // scan offset after the step that produced it (tokenizer only)
}

// Mode is one parsing mode.
type Mode struct {
	Quote byte // 0, '\'' or '"'
	MySQL bool
}

// Lookup classifies a word / phrase / operator / "0"+fingerprint; 0 = unknown.
type Lookup func(string) byte

// NewLookup builds a Lookup over a keyword table. SPEC-DECISION: the probe
// is folded with Go's Unicode-aware strings.ToUpper, as the port does.
func NewLookup(table map[string]byte) Lookup {
	return func(k string) byte { return table[strings.ToUpper(k)] }
}

type Lexer struct {
	S     string
	Pos   int
	M     Mode
	KW    Lookup
	NTok  int // tokens produced
	NDDX  int // "--x" comments counted
	NHash int // '#' seen
}

func clip(cat byte, pos, length int, s string) Token {
	l := length
	if l >= tokenCap {
		l = tokenCap - 1
	}
	return Token{Cat: cat, Pos: pos, Len: l, Val: s[pos : pos+l]}
}

func sqlWhite(c byte) bool {
	return c == ' ' || c == '\t' || c == '\n' || c == '\v' || c == '\f' || c == '\r' || c == 0xa0 || c == 0
}

func inSet(c byte, set string) bool { return strings.IndexByte(set, c) >= 0 }

// span: number of leading bytes of s[i:] that are in set.
func span(s string, i int, set string) int {
	k := i
	for k < len(s) && inSet(s[k], set) {
		k++
	}
	return k - i
}

// cspan: number of leading bytes of s[i:] that are NOT in set.
func cspan(s string, i int, set string) int {
	k := i
	for k < len(s) && !inSet(s[k], set) {
		k++
	}
	return k - i
}

func index(s string, from int, needle string) int {
	if from > len(s) {
		return -1
	}
	k := strings.Index(s[from:], needle)
	if k < 0 {
		return -1
	}
	return from + k
}

const wordStop = " []{}<>:\\?=@!#~+-*/&|^%(),';\t\n\v\f\r\"\xa0\x00"
const varStop = " <>:\\?=@!#~+-*/&|^%(),';\t\n\v\f\r'`\""
const hexDigits = "0123456789abcdefABCDEF"
const letters = "abcdefghijklmnopqrstuvwxyzABCDEFGHIJKLMNOPQRSTUVWXYZ"

func isDigit(c byte) bool { return c >= '0' && c <= '9' }

// Next returns the next token; ok=false at end of input.
func (lx *Lexer) Next() (Token, bool) {
	s, n := lx.S, len(lx.S)
	if n == 0 {
		return Token{}, false
	}
	if lx.Pos == 0 && lx.M.Quote != 0 {
		// the input is read as the continuation of a quoted string
		t, after := quoted(s, 0, 0, lx.M.Quote)
		lx.Pos = after
		lx.NTok++
		t.After = after
		return t, true
	}
	for lx.Pos < n {
		t, after, got := lx.step()
		lx.Pos = after
		if got {
			lx.NTok++
			t.After = after
			return t, true
		}
	}
	return Token{}, false
}

// quoted lexes a quoted string whose content starts at pos+offset. The
// literal ends at the first delimiter that is not preceded (inside the
// literal) by an odd run of backslashes and is not doubled.
func quoted(s string, pos, offset int, delim byte) (Token, int) {
	cs := pos + offset
	open := byte(0)
	if offset > 0 {
		open = delim
	}
	i := cs
	for {
		j := strings.IndexByte(s[i:], delim)
		if j < 0 {
			t := clip('s', cs, len(s)-cs, s)
			t.Open = open
			return t, len(s)
		}
		j += i
		run := 0
		for k := j - 1; k >= cs && s[k] == '\\'; k-- {
			run++
		}
		if run%2 == 1 {
			i = j + 1
			continue
		}
		if j+1 < len(s) && s[j+1] == delim {
			i = j + 2
			continue
		}
		t := clip('s', cs, j-cs, s)
		t.Open, t.Close = open, delim
		return t, j + 1
	}
}

func (lx *Lexer) eolComment(pos int) (Token, int, bool) {
	s := lx.S
	nl := strings.IndexByte(s[pos:], '\n')
	if nl < 0 {
		return clip('c', pos, len(s)-pos, s), len(s), true
	}
	return clip('c', pos, nl, s), pos + nl + 1, true
}

func (lx *Lexer) word(pos int) (Token, int, bool) {
	s := lx.S
	// Only the first tokenCap-1 bytes of the word take part in the split test;
	// they are looked at first so that a run such as "or`or`or`..." (one
	// "word" up to the end of input, split after two bytes every time) costs
	// linear time here too. Same result as scanning the whole word first.
	head := s[pos:]
	if len(head) > tokenCap-1 {
		head = head[:tokenCap-1]
	}
	hl := cspan(head, 0, wordStop)
	// "keyword." / "keyword`": a known non-bareword before '.' or '`' is split off
	for i := 0; i < hl; i++ {
		if head[i] == '.' || head[i] == '`' {
			if c := lx.KW(head[:i]); c != 0 && c != 'n' {
				return clip(c, pos, i, s), pos + i, true
			}
		}
	}
	wl := hl
	if hl == len(head) {
		wl = cspan(s, pos, wordStop)
	}
	t := clip('n', pos, wl, s)
	if wl < tokenCap {
		if c := lx.KW(t.Val[:wl]); c != 0 {
			t.Cat = c
		}
	}
	return t, pos + wl, true
}

func (lx *Lexer) op1(pos int) (Token, int, bool) { return clip('o', pos, 1, lx.S), pos + 1, true }

// step dispatches on the byte at Pos. got=false means white space.
func (lx *Lexer) step() (Token, int, bool) {
	s, n, pos := lx.S, len(lx.S), lx.Pos
	c := s[pos]
	switch {
	case c <= 32 || c == 127 || c == 160:
		return Token{}, pos + 1, false

	case c == '"' || c == '\'':
		t, after := quoted(s, pos, 1, c)
		return t, after, true

	case c == '#':
		lx.NHash++
		if lx.M.MySQL {
			lx.NHash++
			return lx.eolComment(pos)
		}
		return lx.op1(pos)

	case c == '$':
		return lx.money(pos)

	case c == '%' || c == '+' || c == '^' || c == '~':
		return lx.op1(pos)

	case c == '(' || c == ')' || c == ',' || c == ';' || c == '{' || c == '}':
		return clip(c, pos, 1, s), pos + 1, true

	case c == '-':
		if pos+1 < n && s[pos+1] == '-' {
			switch {
			case pos+2 < n && sqlWhite(s[pos+2]):
				return lx.eolComment(pos)
			case pos+2 == n:
				return lx.eolComment(pos)
			case !lx.M.MySQL:
				lx.NDDX++
				return lx.eolComment(pos)
			}
		}
		return lx.op1(pos)

	case c == '.' || isDigit(c):
		return lx.number(pos)

	case c == '/':
		if pos+1 >= n || s[pos+1] != '*' {
			return lx.op1(pos)
		}
		end := index(s, pos+2, "*/")
		length := n - pos
		cat := byte('c')
		if end >= 0 {
			length = end + 2 - pos
			// a nested opener inside the comment (up to and including the '*'
			// of the terminator) makes the token evil
			if strings.Contains(s[pos+2:end+1], "/*") {
				cat = 'X'
			}
		}
		if cat == 'c' && pos+2 < n && s[pos+2] == '!' {
			cat = 'X' // MySQL conditional comment
		}
		return clip(cat, pos, length, s), pos + length, true

	case c == '?' || c == ']':
		return clip('?', pos, 1, s), pos + 1, true

	case c == '@':
		return lx.variable(pos)

	case c == '[':
		e := strings.IndexByte(s[pos:], ']')
		if e < 0 {
			return clip('n', pos, n-pos, s), n, true
		}
		return clip('n', pos, e+1, s), pos + e + 1, true

	case c == '\\':
		if pos+1 < n && s[pos+1] == 'N' {
			return clip('1', pos, 2, s), pos + 2, true
		}
		return clip('\\', pos, 1, s), pos + 1, true

	case c == '`':
		return lx.tick(pos)

	case c == '!' || c == '&' || c == '*' || c == ':' || c == '<' || c == '=' || c == '>' || c == '|':
		if pos+1 >= n {
			return lx.op1(pos)
		}
		if pos+2 < n && s[pos:pos+3] == "<=>" {
			return clip('o', pos, 3, s), pos + 3, true
		}
		if k := lx.KW(s[pos : pos+2]); k != 0 {
			return clip(k, pos, 2, s), pos + 2, true
		}
		if c == ':' {
			return clip(':', pos, 1, s), pos + 1, true
		}
		return lx.op1(pos)

	case c == 'b' || c == 'B':
		return lx.radixString(pos, "01")
	case c == 'x' || c == 'X':
		return lx.radixString(pos, hexDigits)
	case c == 'e' || c == 'E':
		return lx.prefixedString(pos)
	case c == 'n' || c == 'N':
		if pos+2 < n && s[pos+1] == '\'' {
			return lx.prefixedString(pos)
		}
		return lx.qString(pos, 1)
	case c == 'q' || c == 'Q':
		return lx.qString(pos, 0)
	case c == 'u' || c == 'U':
		if pos+2 < n && s[pos+1] == '&' && s[pos+2] == '\'' {
			t, after := quoted(s, pos+2, 1, '\'')
			t.Open = 'u'
			if t.Close == '\'' {
				t.Close = 'u'
			}
			return t, after, true
		}
		return lx.word(pos)
	}
	// letters, '_', bytes 128-159 and 161-255
	return lx.word(pos)
}

// x'..' / b'..' : a complete literal is a number, anything else a word.
func (lx *Lexer) radixString(pos int, digits string) (Token, int, bool) {
	s, n := lx.S, len(lx.S)
	if pos+2 >= n || s[pos+1] != '\'' {
		return lx.word(pos)
	}
	l := span(s, pos+2, digits)
	if pos+2+l >= n || s[pos+2+l] != '\'' {
		return lx.word(pos)
	}
	return clip('1', pos, l+3, s), pos + l + 3, true
}

// n'..' / e'..'
func (lx *Lexer) prefixedString(pos int) (Token, int, bool) {
	s, n := lx.S, len(lx.S)
	if pos+2 >= n || s[pos+1] != '\'' {
		return lx.word(pos)
	}
	t, after := quoted(s, pos, 2, '\'')
	return t, after, true
}

// q'X...X' / nq'X...X'
func (lx *Lexer) qString(pos, off int) (Token, int, bool) {
	s, n := lx.S, len(lx.S)
	p := pos + off
	if p >= n || (s[p] != 'q' && s[p] != 'Q') || p+2 >= n || s[p+1] != '\'' {
		return lx.word(pos)
	}
	d := s[p+2]
	if d < 33 {
		return lx.word(pos)
	}
	switch d {
	case '(':
		d = ')'
	case '[':
		d = ']'
	case '{':
		d = '}'
	case '<':
		d = '>'
	}
	cs := p + 3
	e := index(s, cs, string([]byte{d, '\''}))
	if e < 0 {
		t := clip('s', cs, n-cs, s)
		t.Open = 'q'
		return t, n, true
	}
	t := clip('s', cs, e-cs, s)
	t.Open, t.Close = 'q', 'q'
	return t, e + 2, true
}

func (lx *Lexer) tick(pos int) (Token, int, bool) {
	t, after := quoted(lx.S, pos, 1, '`')
	if lx.KW(t.Val[:t.Len]) == 'f' {
		t.Cat = 'f'
	} else {
		t.Cat = 'n'
	}
	return t, after, true
}

func (lx *Lexer) variable(pos int) (Token, int, bool) {
	s, n := lx.S, len(lx.S)
	p := pos + 1
	count := 1
	if p < n && s[p] == '@' {
		p++
		count = 2
	}
	if p < n && (s[p] == '`' || s[p] == '\'' || s[p] == '"') {
		t, after := quoted(s, p, 1, s[p])
		t.Cat = 'v'
		t.Count = count
		return t, after, true
	}
	l := cspan(s, p, varStop)
	t := clip('v', p, l, s)
	t.Count = count
	return t, p + l, true
}

func (lx *Lexer) money(pos int) (Token, int, bool) {
	s, n := lx.S, len(lx.S)
	if pos+1 == n {
		return clip('n', pos, 1, s), n, true
	}
	l := span(s, pos+1, "0123456789.,")
	switch {
	case l == 0:
		if s[pos+1] == '$' {
			cs := pos + 2
			e := index(s, cs, "$$")
			if e < 0 {
				t := clip('s', cs, n-cs, s)
				t.Open = '$'
				return t, n, true
			}
			t := clip('s', cs, e-cs, s)
			t.Open, t.Close = '$', '$'
			return t, e + 2, true
		}
		x := span(s, pos+1, letters)
		if x == 0 || pos+x+1 == n || s[pos+x+1] != '$' {
			return clip('n', pos, 1, s), pos + 1, true
		}
		tag := s[pos : pos+x+2]
		cs := pos + x + 2
		e := index(s, cs, tag)
		if e < 0 {
			t := clip('s', cs, n-cs, s)
			t.Open = '$'
			return t, n, true
		}
		t := clip('s', cs, e-cs, s)
		t.Open, t.Close = '$', '$'
		return t, e + len(tag), true
	case l == 1 && s[pos+1] == '.':
		return lx.word(pos)
	}
	return clip('1', pos, l+1, s), pos + l + 1, true
}

func (lx *Lexer) number(pos int) (Token, int, bool) {
	s, n := lx.S, len(lx.S)
	if s[pos] == '0' && pos+1 < n {
		digits := ""
		switch s[pos+1] {
		case 'x', 'X':
			digits = hexDigits
		case 'b', 'B':
			digits = "01"
		}
		if digits != "" {
			l := span(s, pos+2, digits)
			if l == 0 {
				return clip('n', pos, 2, s), pos + 2, true
			}
			return clip('1', pos, 2+l, s), pos + 2 + l, true
		}
	}
	p := pos
	for p < n && isDigit(s[p]) {
		p++
	}
	if p < n && s[p] == '.' {
		p++
		for p < n && isDigit(s[p]) {
			p++
		}
		if p-pos == 1 {
			return clip('.', pos, 1, s), p, true
		}
	}
	sawE, sawExp := false, false
	if p < n && (s[p] == 'e' || s[p] == 'E') {
		sawE = true
		p++
		if p < n && (s[p] == '+' || s[p] == '-') {
			p++
		}
		for p < n && isDigit(s[p]) {
			sawExp = true
			p++
		}
	}
	if p < n && inSet(s[p], "dDfF") {
		switch {
		case p+1 == n:
			p++
		case sqlWhite(s[p+1]) || s[p+1] == ';':
			p++
		case s[p+1] == 'u' || s[p+1] == 'U':
			p++
		}
	}
	if sawE && !sawExp {
		return clip('n', pos, p-pos, s), p, true
	}
	return clip('1', pos, p-pos, s), p, true
}

// Tokens runs the lexer to exhaustion (with a step cap).
func Tokens(s string, m Mode, kw Lookup) (toks []Token, lx *Lexer, capped bool) {
	lx = &Lexer{S: s, M: m, KW: kw}
	for i := 0; ; i++ {
		if i > len(s)+2 {
			return toks, lx, true
		}
		t, ok := lx.Next()
		if !ok {
			return toks, lx, false
		}
		toks = append(toks, t)
	}
}
