package core

import (
	"bufio"
	"context"
	"encoding/json"
	"fmt"
	"os"
	"os/exec"
	"path/filepath"
	"sort"
	"strconv"
	"strings"
	"sync"
	"sync/atomic"
	"time"
)

// Env describes where things live for this invocation.
type Env struct {
	Dir  string // /verif
	Work string // scratch dir for this invocation (removed by ./check)
	Self string // path of the vh binary
	Seed uint64
}

func GetEnv() Env {
	e := Env{Dir: os.Getenv("VERIF_DIR"), Work: os.Getenv("VERIF_WORK")}
	if e.Dir == "" {
		e.Dir = "/verif"
	}
	if e.Work == "" {
		e.Work = filepath.Join(e.Dir, ".work", fmt.Sprintf("adhoc.%d", os.Getpid()))
		os.MkdirAll(e.Work, 0o755)
	}
	e.Self, _ = os.Executable()
	e.Seed = 1
	if s := os.Getenv("VERIF_SEED"); s != "" {
		if n, err := strconv.ParseInt(s, 10, 64); err == nil {
			e.Seed = uint64(n)
		}
	}
	return e
}

// Known findings -----------------------------------------------------------

type knownFinding struct {
	prop, key, what string
}

func loadKnown(dir string) []knownFinding {
	f, err := os.Open(filepath.Join(dir, "KNOWN_FINDINGS.txt"))
	if err != nil {
		return nil
	}
	defer f.Close()
	var out []knownFinding
	sc := bufio.NewScanner(f)
	sc.Buffer(make([]byte, 1<<20), 1<<20)
	for sc.Scan() {
		line := strings.TrimSpace(sc.Text())
		if !strings.HasPrefix(line, "known:") {
			continue // comments and "fixed:" lines suppress nothing
		}
		rest := strings.TrimSpace(strings.TrimPrefix(line, "known:"))
		// known: property=<ID> key=<quoted key> <what>
		var k knownFinding
		if !strings.HasPrefix(rest, "property=") {
			continue
		}
		sp := strings.IndexByte(rest, ' ')
		if sp < 0 {
			continue
		}
		k.prop = rest[len("property="):sp]
		rest = strings.TrimSpace(rest[sp:])
		if !strings.HasPrefix(rest, "key=") {
			continue
		}
		rest = rest[4:]
		q, err := strconv.QuotedPrefix(rest)
		if err != nil {
			continue
		}
		k.key, _ = strconv.Unquote(q)
		k.what = strings.TrimSpace(rest[len(q):])
		out = append(out, k)
	}
	return out
}

// Evidence -----------------------------------------------------------------

type evidence struct {
	PropertyID  string                 `json:"property_id"`
	Tier        string                 `json:"tier"`
	Seed        int64                  `json:"seed"`
	Level       string                 `json:"level"`
	Coverage    map[string]interface{} `json:"coverage"`
	Assumptions []string               `json:"assumptions"`
	WallS       float64                `json:"wall_s"`
	Violations  int                    `json:"violations"`
}

func writeEvidence(env Env, ch *Check, rep *Report, tier string, wall float64, nviol int, extra map[string]interface{}) {
	cov := map[string]interface{}{
		"evaluations":         rep.Evaluations,
		"distinct_nontrivial": rep.Distinct,
		"rule":                ch.Rule,
	}
	samples := []interface{}{}
	for _, s := range rep.Samples {
		samples = append(samples, s)
	}
	cov["samples"] = samples
	if ch.Exhaustive {
		cov["exhaustive"] = true
	}
	observed := map[string]interface{}{}
	for set, m := range rep.Obs {
		keys := SortedKeys(m)
		ex := keys
		if len(ex) > 64 {
			ex = ex[:64]
		}
		var total uint64
		for _, v := range m {
			total += v
		}
		observed[set] = map[string]interface{}{"distinct": len(m), "events": total, "top": ex}
	}
	cov["observed"] = observed
	cnt := map[string]interface{}{}
	ck := make([]string, 0, len(rep.Counters))
	for k := range rep.Counters {
		ck = append(ck, k)
	}
	sort.Strings(ck)
	for _, k := range ck {
		cnt[k] = rep.Counters[k]
	}
	cov["counters"] = cnt
	cov["units"] = rep.Units
	cov["inconclusive"] = rep.Inconcl
	if len(rep.Notes) > 0 {
		cov["notes"] = rep.Notes
	}
	for k, v := range extra {
		cov[k] = v
	}
	ev := evidence{PropertyID: ch.ID, Tier: tier, Seed: int64(env.Seed), Level: "exploration", Coverage: cov,
		Assumptions: ch.Assumptions, WallS: wall, Violations: nviol}
	if ev.Assumptions == nil {
		ev.Assumptions = []string{}
	}
	data, _ := json.MarshalIndent(&ev, "", " ")
	dir := filepath.Join(env.Dir, "evidence")
	if d := os.Getenv("VERIF_EVIDENCE_DIR"); d != "" {
		dir = d // self-tests against scratch copies must not overwrite the real evidence
	}
	os.MkdirAll(dir, 0o755)
	tmp := filepath.Join(dir, ch.ID+".json.tmp")
	os.WriteFile(tmp, append(data, '\n'), 0o644)
	os.Rename(tmp, filepath.Join(dir, ch.ID+".json"))
}

// Probe: one case in a fresh process ------------------------------------------

type probeResult struct {
	died     bool
	timedOut bool
	viols    []Violation
	log      string
}

func probe(env Env, ch *Check, c Case, tag string, budget time.Duration) probeResult {
	return probeEnv(env, ch, c, tag, budget, nil)
}

func probeEnv(env Env, ch *Check, c Case, tag string, budget time.Duration, extraEnv []string) probeResult {
	c.Pack()
	data, _ := json.Marshal(&c)
	cf := filepath.Join(env.Work, "probe-"+tag+".json")
	of := filepath.Join(env.Work, "probe-"+tag+".out.json")
	lf := filepath.Join(env.Work, "probe-"+tag+".log")
	os.WriteFile(cf, data, 0o644)
	os.Remove(of)
	ctx, cancel := context.WithTimeout(context.Background(), budget)
	defer cancel()
	cmd := exec.CommandContext(ctx, env.Self, "probe", ch.ID, cf, of)
	lg, _ := os.Create(lf)
	cmd.Stdout, cmd.Stderr = lg, lg
	cmd.Env = append(append(os.Environ(), "VERIF_WORKERS=1"), extraEnv...)
	err := cmd.Run()
	lg.Close()
	var res probeResult
	if b, e := os.ReadFile(lf); e == nil {
		if len(b) > 3000 {
			b = b[:3000]
		}
		res.log = string(b)
	}
	if ctx.Err() == context.DeadlineExceeded {
		res.timedOut = true
		return res
	}
	var rep Report
	if b, e := os.ReadFile(of); e == nil && json.Unmarshal(b, &rep) == nil && rep.Done {
		res.viols = rep.Violations
		return res
	}
	if err != nil {
		res.died = true
	}
	return res
}

// ProbeMain is the child side of probe.
func ProbeMain(ch *Check, caseFile, outFile string) int {
	b, err := os.ReadFile(caseFile)
	if err != nil {
		return 2
	}
	var c Case
	if json.Unmarshal(b, &c) != nil || c.Unpack() != nil {
		return 2
	}
	r := &Run{Check: ch, Tier: "probe", Seed: 1, Workers: 1, OutPath: outFile, start: time.Now()}
	r.rep = Report{Property: ch.ID, Tier: "probe", Obs: map[string]map[string]uint64{}, Counters: map[string]uint64{}}
	r.bits = make([]uint64, 1<<10)
	r.bitMask = (1 << 16) - 1
	if ch.MaxStack > 0 {
		setMaxStack(ch.MaxStack)
	}
	w := newWorker(r, 0)
	w.gen = "probe"
	w.noSpice = true
	if os.Getenv("VERIF_PROBE_CONCURRENT") != "" && ch.SpiceCall != nil {
		runConcurrently(ch, r, c)
	} else {
		runWithHistory(ch, w, c)
	}
	r.merge(w)
	r.writeReport(true)
	return 0
}

// ColdStart is the child side of the cold-start probe: 16 goroutines are
// released together and each makes the process's first calls into the public
// entry point (history inputs k, k+1, ...). A table built lazily on first use
// without synchronisation is written by several of them at once.
func ColdStart(ch *Check, k int) int {
	if ch == nil || ch.SpiceCall == nil || len(ch.Spice) == 0 {
		return 0
	}
	if k%2 == 1 && ch.Plan != nil && ch.Gen != nil && ch.One != nil && ch.Custom == nil {
		return coldFirstCalls(ch, k)
	}
	start := make(chan struct{})
	var wg sync.WaitGroup
	for g := 0; g < 16; g++ {
		wg.Add(1)
		go func(g int) {
			defer wg.Done()
			<-start
			for j := 0; j < 4; j++ {
				func() {
					defer func() { recover() }()
					ch.SpiceCall(ch.Spice[(k*5+g+j)%len(ch.Spice)])
				}()
			}
		}(g)
	}
	close(start)
	wg.Wait()
	if ch.ColdStartVerify != nil {
		if msg := ch.ColdStartVerify(); msg != "" {
			fmt.Println("COLDSTART-VIOLATION " + msg)
			return 3
		}
	}
	return 0
}

// coldFirstCalls: the monitored cases themselves as the first library calls
// of a process - the first few cases of ~40 units spread over the plan, one
// goroutine, no history inputs. State that is built lazily on first use by
// SOME inputs (a table initialised only on one branch) is still unbuilt here,
// whereas in the runner some other worker has long triggered it.
type stopGen struct{}

func coldFirstCalls(ch *Check, k int) int {
	r := &Run{Check: ch, Tier: "coldstart", Seed: 1, Workers: 1, start: time.Now()}
	r.rep = Report{Property: ch.ID, Obs: map[string]map[string]uint64{}, Counters: map[string]uint64{}}
	r.bits = make([]uint64, 1<<10)
	r.bitMask = (1 << 16) - 1
	if ch.MaxStack > 0 {
		setMaxStack(ch.MaxStack)
	}
	w := newWorker(r, 0)
	w.noSpice = true
	units := ch.Plan("quick", 1)
	if len(units) == 0 {
		return 0
	}
	step := len(units)/40 + 1
	for ui := (k / 2) % step; ui < len(units) && len(w.viols) == 0; ui += step {
		n := 0
		func() {
			defer func() {
				if x := recover(); x != nil {
					if _, ok := x.(stopGen); !ok {
						panic(x)
					}
				}
			}()
			ch.Gen(w, units[ui], func(c Case) {
				if len(c.In) <= 1<<16 {
					w.Do(c)
				}
				n++
				if n >= 5 || len(w.viols) > 0 {
					panic(stopGen{})
				}
			})
		}()
	}
	if len(w.viols) > 0 {
		v := w.viols[0]
		fmt.Printf("COLDSTART-VIOLATION kind=%s input=%s: %s\n", v.Kind, trunc(strconv.Quote(v.Case.In), 300), strings.ReplaceAll(trunc(v.Detail, 600), "\n", " | "))
		return 3
	}
	return 0
}

// coldStartProbes runs a handful of cold-start children; a child killed by a
// runtime concurrency fault inside library code is a confirmed violation.
func coldStartProbes(env Env, ch *Check) []Violation {
	if ch.SpiceCall == nil {
		return nil
	}
	for k := 0; k < 6; k++ {
		lf := filepath.Join(env.Work, fmt.Sprintf("coldstart-%d.log", k))
		ctx, cancel := context.WithTimeout(context.Background(), 2*time.Minute)
		cmd := exec.CommandContext(ctx, env.Self, "coldstart", ch.ID, strconv.Itoa(k))
		lg, _ := os.Create(lf)
		cmd.Stdout, cmd.Stderr = lg, lg
		err := cmd.Run()
		lg.Close()
		cancel()
		if err == nil {
			continue
		}
		if b, e := os.ReadFile(lf); e == nil {
			if i := strings.Index(string(b), "COLDSTART-VIOLATION "); i >= 0 {
				msg := string(b[i+len("COLDSTART-VIOLATION "):])
				if j := strings.IndexByte(msg, '\n'); j >= 0 {
					msg = msg[:j]
				}
				kind := "damaged-at-first-use"
				if strings.HasPrefix(msg, "kind=") {
					// first-calls mode: the monitor's own kind, observed on the first calls of a process
					if sp := strings.IndexByte(msg, ' '); sp > 5 {
						kind = msg[5:sp] + "-in-first-calls"
					}
				}
				return []Violation{{Property: ch.ID, Kind: kind, Confirmed: true,
					Case:   Case{Desc: "first use in a fresh process"},
					Detail: "in a fresh process right at first use (even-numbered probes: first calls from 16 goroutines at once; odd-numbered: the monitored cases as the first calls): " + msg}}
			}
		}
		if msg, fn := libraryConcurrencyFatal(lf); msg != "" {
			b, _ := os.ReadFile(lf)
			if len(b) > 2000 {
				b = b[:2000]
			}
			return []Violation{{Property: ch.ID, Kind: "fatal-concurrent", Confirmed: true,
				Case:   Case{Desc: "first calls of a process from 16 goroutines at once; faulting library function: " + fn},
				Detail: "a fresh process whose first library calls are made by 16 goroutines at the same moment was killed by the Go runtime: fatal error: " + msg + "\nfaulting goroutine was inside " + fn + "\n" + string(b)}}
		}
	}
	return nil
}

// runConcurrently: eight goroutines; one keeps running the monitor on the
// case, the others keep feeding the recorded predecessor inputs and the
// check's history inputs to the public entry point. Bounded by rounds, not by
// time. Used only after the lone and the history probe did not reproduce a
// violation that the 16-goroutine runner observed.
func runConcurrently(ch *Check, r *Run, c Case) {
	var others []string
	for _, q := range c.PredQ {
		if s, err := strconv.Unquote(q); err == nil {
			others = append(others, s)
		}
	}
	others = append(others, ch.Spice...)
	if len(others) == 0 {
		others = []string{""}
	}
	var stop atomic.Bool
	var wg sync.WaitGroup
	for g := 0; g < 7; g++ {
		wg.Add(1)
		go func(g int) {
			defer wg.Done()
			for i := g; !stop.Load(); i++ {
				func() {
					defer func() { recover() }()
					ch.SpiceCall(others[i%len(others)])
					ch.SpiceCall(c.In)
				}()
			}
		}(g)
	}
	w := newWorker(r, 1)
	w.gen = "probe"
	w.noSpice = true
	for round := 0; round < 20000 && len(w.viols) == 0; round++ {
		w.Do(c)
	}
	stop.Store(true)
	wg.Wait()
	r.merge(w)
}

// runWithHistory runs one case; when the case carries recorded predecessor
// calls they are made first (public entry point, results ignored), for up to
// 50 rounds or until the monitor reports.
func runWithHistory(ch *Check, w *Worker, c Case) {
	if len(c.PredQ) == 0 || ch.SpiceCall == nil {
		w.Do(c)
		return
	}
	var pred []string
	for _, q := range c.PredQ {
		if s, err := strconv.Unquote(q); err == nil {
			pred = append(pred, s)
		}
	}
	for round := 0; round < 50 && len(w.viols) == 0; round++ {
		for _, s := range pred {
			func() {
				defer func() { recover() }()
				ch.SpiceCall(s)
			}()
		}
		w.Do(c)
	}
}

// Drive is the parent: runs the runner child, confirms what it reported in
// fresh processes, consults the known-findings file, writes evidence and
// replay files, prints verdict lines and returns the exit status.
func Drive(ch *Check, tier string) int {
	env := GetEnv()
	start := time.Now()
	out := filepath.Join(env.Work, "report.json")
	slots := filepath.Join(env.Work, "slots.bin")
	logf := filepath.Join(env.Work, "runner.log")
	overall := 25 * time.Minute
	if tier == "thorough" {
		overall = 5 * time.Hour
	}
	ctx, cancel := context.WithTimeout(context.Background(), overall)
	defer cancel()
	cmd := exec.CommandContext(ctx, env.Self, "runner", ch.ID, tier, strconv.FormatUint(env.Seed, 10), out, slots)
	lg, _ := os.Create(logf)
	cmd.Stdout, cmd.Stderr = lg, lg
	cmd.Env = append(os.Environ(), "VERIF_WORK="+env.Work, "VERIF_DIR="+env.Dir)
	runErr := cmd.Run()
	lg.Close()

	var rep Report
	haveRep := false
	if b, e := os.ReadFile(out); e == nil && json.Unmarshal(b, &rep) == nil {
		haveRep = true
	}
	if !haveRep {
		rep = Report{Property: ch.ID, Tier: tier, Seed: env.Seed, Obs: map[string]map[string]uint64{}, Counters: map[string]uint64{}}
	}
	var confirmed []Violation
	var inconcl []string
	inconcl = append(inconcl, rep.Inconcl...)
	confirmed = append(confirmed, coldStartProbes(env, ch)...)

	tail := func() string {
		b, _ := os.ReadFile(logf)
		if len(b) > 2500 {
			b = b[:2500]
		}
		return string(b)
	}

	switch {
	case ctx.Err() == context.DeadlineExceeded:
		inconcl = append(inconcl, fmt.Sprintf("runner exceeded the overall watchdog of %s; nothing it may have found is reported", overall))
	case haveRep && rep.Done:
		// normal completion
	case haveRep && rep.Suspect != nil:
		// progress watchdog fired: confirm the suspect alone with 6x the budget
		c := *rep.Suspect
		if err := c.Unpack(); err != nil {
			inconcl = append(inconcl, "suspect could not be decoded: "+err.Error())
			break
		}
		pr := probe(env, ch, c, "hang", CaseBudget(int64(len(c.In)+len(c.S)), 6))
		switch {
		case pr.timedOut:
			confirmed = append(confirmed, Violation{Property: ch.ID, Kind: "no-return", Case: c,
				Detail: "call did not return within " + CaseBudget(int64(len(c.In)+len(c.S)), 6).String() + " when run alone in a fresh process (" + rep.SuspectWhy + ")"})
		case pr.died:
			confirmed = append(confirmed, Violation{Property: ch.ID, Kind: "fatal", Case: c, Detail: "process died when the case was run alone:\n" + pr.log})
		case len(pr.viols) > 0:
			confirmed = append(confirmed, pr.viols...)
		default:
			inconcl = append(inconcl, "a case exceeded its progress budget in the workload but completed when run alone: "+strconv.Quote(trunc(c.In, 80)))
		}
	default:
		// the runner died without a complete report: attribute through the journal
		cands := ReadSlots(slots)
		found := len(confirmed) > 0 // a cold-start probe already explained a concurrency death
		for i, c := range cands {
			pr := probe(env, ch, c, fmt.Sprintf("slot%d", i), CaseBudget(int64(len(c.In)+len(c.S)), 6))
			switch {
			case pr.died:
				confirmed = append(confirmed, Violation{Property: ch.ID, Kind: "fatal", Case: c, Detail: "process-fatal error when the case is run alone in a fresh process:\n" + pr.log})
				found = true
			case pr.timedOut:
				confirmed = append(confirmed, Violation{Property: ch.ID, Kind: "no-return", Case: c, Detail: "call did not return when run alone"})
				found = true
			case len(pr.viols) > 0:
				confirmed = append(confirmed, pr.viols...)
				found = true
			}
		}
		if !found {
			// No single case kills a fresh process. One class of death is still a
			// directly observed fact about the library and not about this harness:
			// the Go runtime's own unrecoverable concurrency faults (unsynchronised
			// map access, unlock of an unlocked mutex) raised while the faulting
			// goroutine was executing library code. The runner calls the library
			// from 16 goroutines, which is exactly the use the README promises is
			// safe; correct code cannot produce these.
			if msg, fn := libraryConcurrencyFatal(logf); msg != "" {
				confirmed = append(confirmed, Violation{Property: ch.ID, Kind: "fatal-concurrent", Confirmed: true,
					Case:   Case{Desc: "not reproducible from one input; faulting library function: " + fn},
					Detail: "the runner process (16 goroutines calling the library) was killed by the Go runtime: fatal error: " + msg + "\nfaulting goroutine was inside " + fn + "\n" + tail()})
				found = true
			}
		}
		if !found {
			fmt.Printf("BROKEN-CHECK property=%s runner died (%v) and no journalled case reproduces it; log:\n%s\n", ch.ID, runErr, tail())
			writeEvidence(env, ch, &rep, tier, time.Since(start).Seconds(), 0, map[string]interface{}{"broken": "runner died: " + fmt.Sprint(runErr)})
			return 2
		}
	}

	// confirm reported violations in fresh processes (a handful per kind)
	perKind := map[string]int{}
	seen := map[string]bool{}
	unconfirmed := 0
	for _, v := range rep.Violations {
		if v.Case.Unpack() != nil {
			continue
		}
		k := v.Key()
		if seen[k] {
			continue
		}
		seen[k] = true
		if perKind[v.Kind] >= 4 {
			continue
		}
		if v.Confirmed || ch.Custom != nil && ch.One == nil {
			// custom runners without a single-case monitor confirm their own findings
			perKind[v.Kind]++
			confirmed = append(confirmed, v)
			continue
		}
		budget := CaseBudget(int64(len(v.Case.In)+len(v.Case.S)), 6)
		if ch.ProbeBudget > 0 {
			budget = ch.ProbeBudget
		}
		lone := v.Case
		lone.PredQ = nil
		pr := probe(env, ch, lone, fmt.Sprintf("v%d", len(seen)), budget)
		ok := pr.died || pr.timedOut
		for _, pv := range pr.viols {
			if pv.Kind == v.Kind {
				ok = true
			}
		}
		if ok {
			v.Case.PredQ = nil
		} else if ch.SpiceCall != nil && len(v.Case.PredQ) > 0 {
			// not a function of this input alone: probe again in a fresh process
			// after the calls the worker had made just before
			pr = probe(env, ch, v.Case, fmt.Sprintf("v%dh", len(seen)), budget)
			for _, pv := range pr.viols {
				if pv.Kind == v.Kind {
					ok = true
				}
			}
			if ok {
				v.Kind += "-after-history"
				v.Detail = "a lone call in a fresh process does not show this; it shows in a fresh process after the " + strconv.Itoa(len(v.Case.PredQ)) + " calls the worker had made just before (recorded in the replay file): the answer depends on earlier calls\n" + v.Detail
			} else {
				// neither alone nor after its predecessors: the runner made it while
				// 15 other goroutines were inside the library. Probe once more in a
				// fresh process with seven goroutines calling the public entry point
				// concurrently (bounded by rounds).
				pr = probeEnv(env, ch, v.Case, fmt.Sprintf("v%dc", len(seen)), budget, []string{"VERIF_PROBE_CONCURRENT=1"})
				if pr.died && !pr.timedOut {
					ok = true
				}
				for _, pv := range pr.viols {
					if pv.Kind == v.Kind {
						ok = true
					}
				}
				if ok {
					v.Kind += "-under-concurrency"
					v.Detail = "neither a lone call nor the recorded call history shows this in a fresh process; it shows in a fresh process while seven other goroutines call the public entry point (the library is documented as safe for concurrent use)\n" + v.Detail + "\n" + trunc(pr.log, 600)
				}
			}
		}
		if ok {
			perKind[v.Kind]++
			confirmed = append(confirmed, v)
		} else {
			unconfirmed++
		}
	}
	if unconfirmed > 0 {
		inconcl = append(inconcl, fmt.Sprintf("%d reported violation(s) did not reproduce in a fresh process", unconfirmed))
	}

	// known findings
	known := loadKnown(env.Dir)
	var fresh []Violation
	knownHit := map[string]bool{}
	for _, v := range confirmed {
		k := v.Key()
		matched := false
		for _, kf := range known {
			if kf.prop == ch.ID && kf.key == k {
				matched = true
				if !knownHit[k] {
					knownHit[k] = true
					fmt.Printf("KNOWN-FINDING: property=%s %s\n", ch.ID, kf.what)
				}
			}
		}
		if !matched {
			fresh = append(fresh, v)
		}
	}

	// broken-check guard: a run that observed nothing is not a pass
	if len(fresh) == 0 && len(inconcl) == 0 && (rep.Evaluations == 0 || rep.Distinct < 2) {
		fmt.Printf("BROKEN-CHECK property=%s observed nothing (evaluations=%d distinct_nontrivial=%d); log:\n%s\n", ch.ID, rep.Evaluations, rep.Distinct, tail())
		writeEvidence(env, ch, &rep, tier, time.Since(start).Seconds(), 0, map[string]interface{}{"broken": "observed nothing"})
		return 2
	}

	rep.Inconcl = inconcl
	extra := map[string]interface{}{"known_findings_matched": len(knownHit)}
	if cf := os.Getenv("VERIF_COVERAGE_FILE"); cf != "" {
		if b, e := os.ReadFile(cf); e == nil {
			var cov map[string]interface{}
			if json.Unmarshal(b, &cov) == nil {
				extra["library_coverage"] = cov
			}
		}
	}
	nv := len(fresh)
	writeEvidence(env, ch, &rep, tier, time.Since(start).Seconds(), nv, extra)

	for _, s := range inconcl {
		fmt.Printf("INCONCLUSIVE property=%s %s\n", ch.ID, s)
	}
	if nv == 0 {
		fmt.Printf("OK property=%s tier=%s seed=%d evaluations=%d distinct_nontrivial=%d wall=%.1fs\n", ch.ID, tier, env.Seed, rep.Evaluations, rep.Distinct, time.Since(start).Seconds())
		return 0
	}
	rdir := filepath.Join(env.Dir, "replays", ch.ID)
	if d := os.Getenv("VERIF_REPLAY_DIR"); d != "" {
		rdir = filepath.Join(d, ch.ID)
	}
	os.MkdirAll(rdir, 0o755)
	for i, v := range fresh {
		if i >= 10 {
			break
		}
		v.Case.Pack()
		data, _ := json.MarshalIndent(&v, "", " ")
		name := fmt.Sprintf("%s-%016x.json", sanitize(v.Kind), Hash64(v.Key()))
		p := filepath.Join(rdir, name)
		os.WriteFile(p, append(data, '\n'), 0o644)
		fmt.Printf("VIOLATION property=%s replay=%s\n", ch.ID, p)
		shown := v.Case.InQ
		if shown == "" && v.Case.Desc != "" {
			shown = "<generated: " + v.Case.Desc + ">"
		}
		fmt.Printf("  kind=%s input=%s\n  %s\n", v.Kind, trunc(shown, 300), strings.ReplaceAll(trunc(v.Detail, 700), "\n", "\n  "))
	}
	if rep.NViolations > uint64(len(fresh)) {
		fmt.Printf("  (%d violating executions in total)\n", rep.NViolations)
	}
	return 1
}

func sanitize(s string) string {
	b := []byte(s)
	for i, c := range b {
		if !(c >= 'a' && c <= 'z' || c >= 'A' && c <= 'Z' || c >= '0' && c <= '9' || c == '-') {
			b[i] = '_'
		}
	}
	return string(b)
}

func trunc(s string, n int) string {
	if len(s) <= n {
		return s
	}
	return s[:n] + "…"
}

// ReplayMain re-runs one recorded violation and prints both sides.
func ReplayMain(lookup func(id string) *Check, path string) int {
	b, err := os.ReadFile(path)
	if err != nil {
		fmt.Println("cannot read", path, err)
		return 2
	}
	var v Violation
	if err := json.Unmarshal(b, &v); err != nil {
		fmt.Println("bad replay file:", err)
		return 2
	}
	if err := v.Case.Unpack(); err != nil {
		fmt.Println("bad case:", err)
		return 2
	}
	ch := lookup(v.Property)
	if ch == nil {
		fmt.Println("unknown property", v.Property)
		return 2
	}
	fmt.Printf("replay property=%s kind=%s case.kind=%s a=%d b=%d c=%d\ninput=%s\n", v.Property, v.Kind, v.Case.Kind, v.Case.A, v.Case.B, v.Case.C, trunc(strconv.Quote(v.Case.In), 2000))
	if v.Case.S != "" {
		fmt.Printf("s=%s\n", trunc(strconv.Quote(v.Case.S), 2000))
	}
	if v.Confirmed {
		// observed directly in the workload (history or concurrency dependent);
		// a single call in this process cannot show it again
		fmt.Println("this violation depends on the call history or on concurrent calls; recorded observation:")
		fmt.Println(v.Detail)
		return 1
	}
	if ch.Custom != nil && ch.One == nil {
		fmt.Println("this property has no single-case replay; recorded detail:")
		fmt.Println(v.Detail)
		return 1
	}
	if ch.Explain != nil {
		func() {
			defer func() {
				if r := recover(); r != nil {
					fmt.Printf("explain panicked: %v\n", r)
				}
			}()
			fmt.Println(ch.Explain(v.Case))
		}()
	}
	r := &Run{Check: ch, Tier: "replay", Seed: 1, Workers: 1, start: time.Now()}
	r.rep = Report{Obs: map[string]map[string]uint64{}, Counters: map[string]uint64{}}
	r.bits = make([]uint64, 1<<10)
	r.bitMask = (1 << 16) - 1
	if ch.MaxStack > 0 {
		setMaxStack(ch.MaxStack)
	}
	w := newWorker(r, 0)
	w.noSpice = true
	if strings.HasSuffix(v.Kind, "-under-concurrency") && ch.SpiceCall != nil {
		fmt.Println("the recorded violation showed only under concurrent calls; the case is run while seven goroutines call the public entry point (up to 20000 rounds)")
		runConcurrently(ch, r, v.Case)
		if len(r.rep.Violations) == 0 {
			fmt.Println("NOT-REPRODUCED: the monitor accepts this case on the current tree")
			return 0
		}
		for _, x := range r.rep.Violations {
			fmt.Printf("REPRODUCED kind=%s\n%s\n", x.Kind, x.Detail)
			break
		}
		return 1
	}
	if len(v.Case.PredQ) > 0 {
		fmt.Printf("the recorded violation showed only after %d earlier calls by the same worker; they are made first (up to 50 rounds)\n", len(v.Case.PredQ))
	}
	runWithHistory(ch, w, v.Case)
	if len(w.viols) == 0 {
		fmt.Println("NOT-REPRODUCED: the monitor accepts this case on the current tree")
		return 0
	}
	for _, x := range w.viols {
		fmt.Printf("REPRODUCED kind=%s\n%s\n", x.Kind, x.Detail)
	}
	return 1
}

// libraryConcurrencyFatal inspects a dead runner's log. It returns the fatal
// message and the faulting library function when the process was killed by one
// of the Go runtime's unrecoverable concurrency faults and the first
// non-runtime frame of the faulting goroutine belongs to the library package.
func libraryConcurrencyFatal(logf string) (string, string) {
	b, err := os.ReadFile(logf)
	if err != nil {
		return "", ""
	}
	lines := strings.Split(string(b), "\n")
	msg := ""
	for i, l := range lines {
		if msg == "" {
			if strings.HasPrefix(l, "fatal error: ") {
				m := strings.TrimPrefix(l, "fatal error: ")
				if strings.HasPrefix(m, "concurrent map ") || strings.HasPrefix(m, "sync: ") {
					msg = m
				} else {
					return "", ""
				}
			}
			continue
		}
		if strings.HasPrefix(l, "goroutine ") && strings.HasSuffix(l, "[running]:") {
			for _, f := range lines[i+1:] {
				if f == "" {
					break
				}
				if strings.HasPrefix(f, "\t") || strings.HasPrefix(f, "runtime.") || strings.HasPrefix(f, "sync.") || strings.HasPrefix(f, "internal/") {
					continue
				}
				if strings.HasPrefix(f, "github.com/corazawaf/libinjection-go.") {
					if k := strings.Index(f, "("); k > 0 {
						// keep "(*T).method" intact: cut at the argument list
						if j := strings.LastIndex(f, "("); j > 0 {
							k = j
						}
						return msg, f[:k]
					}
					return msg, f
				}
				return "", ""
			}
			return "", ""
		}
	}
	return "", ""
}
