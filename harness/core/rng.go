package core

// SplitMix64 stream. All randomness in the harness comes from streams keyed by
// (VERIF_SEED, property id, generator name, unit index); nothing depends on
// the clock.
type Rng struct{ s uint64 }

func mix(z uint64) uint64 {
	z = (z ^ (z >> 30)) * 0xbf58476d1ce4e5b9
	z = (z ^ (z >> 27)) * 0x94d049bb133111eb
	return z ^ (z >> 31)
}

// Hash64 is FNV-1a followed by a SplitMix finaliser.
func Hash64(s string) uint64 {
	h := uint64(14695981039346656037)
	for i := 0; i < len(s); i++ {
		h ^= uint64(s[i])
		h *= 1099511628211
	}
	return mix(h)
}

func NewRng(seed uint64, keys ...string) *Rng {
	s := mix(seed + 0x9e3779b97f4a7c15)
	for _, k := range keys {
		s = mix(s ^ Hash64(k))
	}
	return &Rng{s: s}
}

func (r *Rng) Fork(i uint64) *Rng { return &Rng{s: mix(r.s ^ mix(i+0x632be59bd9b4e019))} }

func (r *Rng) U64() uint64 {
	r.s += 0x9e3779b97f4a7c15
	return mix(r.s)
}

// Intn returns a value in [0,n).
func (r *Rng) Intn(n int) int {
	if n <= 1 {
		return 0
	}
	return int(r.U64() % uint64(n))
}

func (r *Rng) Bool() bool { return r.U64()&1 == 1 }

// Pick returns one element of xs.
func (r *Rng) Pick(xs []string) string { return xs[r.Intn(len(xs))] }
