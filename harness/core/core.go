// Package core is the execution framework shared by all monitors: unit
// scheduling over worker goroutines, per-case journalling into a shared
// memory file (so a process-fatal error can be attributed to an input),
// panic capture, a progress watchdog, observation bookkeeping and reports.
package core

import (
	"encoding/binary"
	"encoding/json"
	"fmt"
	"os"
	"runtime"
	"runtime/debug"
	"sort"
	"strconv"
	"sync"
	"sync/atomic"
	"syscall"
	"time"
)

// Case is one monitored execution: an input plus the few parameters a monitor
// needs to re-run exactly the same comparison (replay).
type Case struct {
	In   string `json:"-"`
	S    string `json:"-"`
	Kind string `json:"kind,omitempty"`
	A    int64  `json:"a,omitempty"`
	B    int64  `json:"b,omitempty"`
	C    int64  `json:"c,omitempty"`
	// Desc, when set, regenerates In (used for very long inputs so that
	// journal slots and replay files stay small).
	Desc string `json:"desc,omitempty"`
	// InQ / SQ carry In / S through JSON as Go-quoted strings so that
	// arbitrary bytes survive.
	InQ string `json:"in"`
	SQ  string `json:"s,omitempty"`
	// PredQ: the inputs (Go-quoted, oldest first) that the same worker had
	// passed to the library right before this case, recorded only when a
	// violation is reported by a check that declares history inputs (Spice).
	// A probe or replay that finds PredQ makes those calls first.
	PredQ []string `json:"pred,omitempty"`
}

func (c *Case) Pack() {
	if c.Desc != "" && len(c.In) > 4096 {
		c.InQ = ""
	} else {
		c.InQ = strconv.Quote(c.In)
	}
	if c.S != "" {
		c.SQ = strconv.Quote(c.S)
	}
}

// Expander turns a Desc back into an input. Set by package gen.
var Expander func(desc string) (string, bool)

func (c *Case) Unpack() error {
	if c.InQ != "" {
		s, err := strconv.Unquote(c.InQ)
		if err != nil {
			return err
		}
		c.In = s
	} else if c.Desc != "" {
		if Expander == nil {
			return fmt.Errorf("no expander")
		}
		s, ok := Expander(c.Desc)
		if !ok {
			return fmt.Errorf("bad desc %q", c.Desc)
		}
		c.In = s
	}
	if c.SQ != "" {
		s, err := strconv.Unquote(c.SQ)
		if err != nil {
			return err
		}
		c.S = s
	}
	return nil
}

// Violation is a refutation of a property by one observed execution.
type Violation struct {
	Property string `json:"property"`
	Kind     string `json:"kind"`
	Case     Case   `json:"case"`
	Detail   string `json:"detail"`
	Gen      string `json:"gen,omitempty"`
	// Confirmed: the custom runner already reproduced / directly observed
	// this (e.g. a race-detector report); the driver does not probe it again.
	Confirmed bool `json:"confirmed,omitempty"`
}

// Key identifies a violation for the known-findings file.
func (v *Violation) Key() string {
	v.Case.Pack()
	k := v.Kind + "|" + v.Case.Kind + "|"
	k += v.Case.InQ
	if v.Case.Desc != "" {
		k += "|desc:" + v.Case.Desc
	}
	return k
}

// Unit is a slice of a generator's index space; the unit of parallel work.
type Unit struct {
	Gen string
	Lo  uint64
	Hi  uint64
	Arg string
}

// Check is one property's monitor.
type Check struct {
	ID   string
	Rule string
	// Plan lists the work of a tier.
	Plan func(tier string, seed uint64) []Unit
	// Gen emits the cases of a unit.
	Gen func(w *Worker, u Unit, emit func(Case))
	// One runs the monitored execution(s) for one case and reports through w.
	One func(w *Worker, c Case)
	// Budget returns the CPU/wall budget (seconds) for one case.
	MaxStack    int
	Assumptions []string
	Exhaustive  bool
	// After runs once in the runner after all units (quiescent point).
	After func(w *Worker)
	// Custom replaces the whole runner for checks that need their own
	// process structure (C05, C09). It must fill the report.
	Custom func(r *Run)
	// ProbeBudget overrides the per-case budget of the fresh-process
	// confirmation (0 = CaseBudget x 6).
	ProbeBudget time.Duration
	// Explain prints both sides of the comparison for replay.
	Explain func(c Case) string
	// Spice / SpiceCall: a fixed list of inputs that leave the scanner in its
	// less usual states (ends inside a construct, a positive verdict, ...) and
	// the public entry point to feed them to. Every worker feeds two of them,
	// results ignored, before every 61st case, so that the monitored calls are
	// made after a varied history and not only after their own kind. A
	// violation that a lone call in a fresh process does not show is probed
	// again after the recorded predecessor calls.
	Spice     []string
	SpiceCall func(s string)
	// ColdStartVerify, when set, runs in every cold-start child after the
	// concurrent first calls; a non-empty result is a violation observed there.
	ColdStartVerify func() string
}

// Report is what a runner process hands to the driver.
type Report struct {
	Property    string                       `json:"property"`
	Tier        string                       `json:"tier"`
	Seed        uint64                       `json:"seed"`
	Evaluations uint64                       `json:"evaluations"`
	Distinct    uint64                       `json:"distinct_nontrivial"`
	Obs         map[string]map[string]uint64 `json:"obs"`
	Counters    map[string]uint64            `json:"counters"`
	Violations  []Violation                  `json:"violations"`
	NViolations uint64                       `json:"n_violations"`
	Samples     []string                     `json:"samples"`
	Suspect     *Case                        `json:"suspect,omitempty"`
	SuspectWhy  string                       `json:"suspect_why,omitempty"`
	Inconcl     []string                     `json:"inconclusive,omitempty"`
	Notes       []string                     `json:"notes,omitempty"`
	WallS       float64                      `json:"wall_s"`
	Units       int                          `json:"units"`
	Done        bool                         `json:"done"`
}

// Run is the shared state of one runner process.
type Run struct {
	Check   *Check
	Tier    string
	Seed    uint64
	Workers int
	bits    []uint64
	bitMask uint64
	mu      sync.Mutex
	rep     Report
	slots   []byte
	slotSz  int
	ws      []*Worker
	OutPath string
	start   time.Time
}

const slotSize = 176 << 10 // one input of up to 70 000 bytes plus metadata (the padded inputs reach 65 537 bytes)

// Worker is the per-goroutine handle monitors report through.
type Worker struct {
	R        *Run
	ID       int
	Rng      *Rng
	evals    uint64
	obs      map[string]map[string]uint64
	counters map[string]uint64
	viols    []Violation
	nviol    uint64
	violKind map[string]int
	samples  []string
	slot     []byte
	seq      atomic.Uint64
	curLen   atomic.Int64
	idle     atomic.Bool // no case in flight (between units / finished)
	gen      string
	cur      Case
	Local    map[string]interface{}
	nDo      uint64
	spiceIdx int
	recent   [6]string // inputs most recently passed to the library by this worker
	nRecent  int
	noSpice  bool
}

func (w *Worker) remember(s string) {
	if len(s) > 1<<16 {
		return
	}
	w.recent[w.nRecent%len(w.recent)] = s
	w.nRecent++
}

func (w *Worker) predecessors() []string {
	var out []string
	n := len(w.recent)
	for i := w.nRecent - n; i < w.nRecent; i++ {
		if i < 0 {
			continue
		}
		out = append(out, strconv.Quote(w.recent[i%n]))
	}
	return out
}

func (w *Worker) spice() {
	ch := w.R.Check
	if w.noSpice || ch.SpiceCall == nil || len(ch.Spice) == 0 {
		return
	}
	w.nDo++
	if w.nDo%61 != 0 {
		return
	}
	for j := 0; j < 2; j++ {
		s := ch.Spice[(w.spiceIdx+w.ID*7)%len(ch.Spice)]
		w.spiceIdx++
		w.remember(s)
		func() {
			defer func() { recover() }()
			ch.SpiceCall(s)
		}()
	}
}

func (w *Worker) Eval(n int) { w.evals += uint64(n) }

// Nontrivial marks a distinct non-trivial case. The count reported is the
// number of set bits in a hash-indexed bit table: a lower bound on the number
// of distinct keys (collisions can only lose counts).
func (w *Worker) Nontrivial(key string) {
	h := Hash64(key)
	i := h & w.R.bitMask
	word, bit := i>>6, uint64(1)<<(i&63)
	p := &w.R.bits[word]
	if atomic.LoadUint64(p)&bit == 0 {
		atomic.OrUint64(p, bit)
	}
}

func (w *Worker) Observe(set, key string) {
	m := w.obs[set]
	if m == nil {
		m = map[string]uint64{}
		w.obs[set] = m
	}
	m[key]++
}

func (w *Worker) Count(name string, n uint64) { w.counters[name] += n }

// ViolateConfirmed records a violation that needs no fresh-process probe.
func (w *Worker) ViolateConfirmed(kind, detail string) {
	n := len(w.viols)
	w.Violate(kind, detail)
	if len(w.viols) > n {
		w.viols[len(w.viols)-1].Confirmed = true
	}
}

// SetCur sets the case that Violate attributes to (custom runners).
func (w *Worker) SetCur(c Case) { w.cur = c }

func (w *Worker) Sample(s string) {
	if len(w.samples) < 4 && len(s) <= 200 {
		w.samples = append(w.samples, strconv.Quote(s))
	}
}

// Violate records a refutation for the case currently being run.
func (w *Worker) Violate(kind string, detail string) {
	w.nviol++
	if w.violKind == nil {
		w.violKind = map[string]int{}
	}
	w.violKind[kind]++
	if w.violKind[kind] > 12 || len(w.viols) >= 60 {
		return
	}
	c := w.cur
	if len(detail) > 1500 {
		detail = detail[:1500] + "…"
	}
	if w.R.Check.SpiceCall != nil && !w.noSpice && c.PredQ == nil {
		c.PredQ = w.predecessors()
	}
	w.viols = append(w.viols, Violation{Property: w.R.Check.ID, Kind: kind, Case: c, Detail: detail, Gen: w.gen})
}

func (w *Worker) journal(c *Case) {
	if w.slot == nil {
		return
	}
	b := w.slot
	n := 16
	put := func(s string) {
		if len(s) > 70000 {
			s = s[:70000]
		}
		binary.LittleEndian.PutUint32(b[n:], uint32(len(s)))
		n += 4
		n += copy(b[n:], s)
	}
	full := c.In
	if len(full) > 70000 && c.Desc != "" {
		full = ""
	}
	binary.LittleEndian.PutUint32(b[8:], uint32(len(c.In)))
	put(full)
	put(c.S)
	put(c.Kind)
	put(c.Desc)
	binary.LittleEndian.PutUint64(b[n:], uint64(c.A))
	binary.LittleEndian.PutUint64(b[n+8:], uint64(c.B))
	binary.LittleEndian.PutUint64(b[n+16:], uint64(c.C))
	binary.LittleEndian.PutUint64(b[0:], w.seq.Load()+1)
}

// ReadSlots decodes the journal file of a dead runner.
func ReadSlots(path string) []Case {
	data, err := os.ReadFile(path)
	if err != nil {
		return nil
	}
	var out []Case
	for off := 0; off+slotSize <= len(data); off += slotSize {
		if c, ok := decodeSlot(data[off : off+slotSize]); ok {
			out = append(out, c)
		}
	}
	return out
}

func decodeSlot(b []byte) (Case, bool) {
	var c Case
	if len(b) < slotSize || binary.LittleEndian.Uint64(b[0:]) == 0 {
		return c, false
	}
	n := 16
	bad := false
	get := func() string {
		if n+4 > len(b) {
			bad = true
			return ""
		}
		l := int(binary.LittleEndian.Uint32(b[n:]))
		n += 4
		if l < 0 || n+l > len(b) {
			bad = true
			return ""
		}
		s := string(b[n : n+l])
		n += l
		return s
	}
	fullLen := int(binary.LittleEndian.Uint32(b[8:]))
	c.In = get()
	c.S = get()
	c.Kind = get()
	c.Desc = get()
	if bad || n+24 > len(b) {
		return c, false
	}
	c.A = int64(binary.LittleEndian.Uint64(b[n:]))
	c.B = int64(binary.LittleEndian.Uint64(b[n+8:]))
	c.C = int64(binary.LittleEndian.Uint64(b[n+16:]))
	if c.In == "" && c.Desc != "" && Expander != nil {
		if s, ok := Expander(c.Desc); ok {
			c.In = s
		}
	}
	if len(c.In) != fullLen {
		// truncated in the journal and not regenerable
		return c, false
	}
	return c, true
}

// Do runs the monitor on one case: journal, progress stamp, panic capture.
func (w *Worker) Do(c Case) {
	w.spice()
	w.journal(&c)
	w.curLen.Store(int64(len(c.In) + len(c.S)))
	w.seq.Add(1)
	w.idle.Store(false)
	w.cur = c
	defer func() {
		w.idle.Store(true)
		if w.R.Check.SpiceCall != nil {
			w.remember(c.In)
		}
		if r := recover(); r != nil {
			st := string(debug.Stack())
			if len(st) > 1200 {
				st = st[:1200]
			}
			w.Violate("panic", fmt.Sprintf("%v\n%s", r, st))
		}
	}()
	w.R.Check.One(w, c)
}

func newWorker(r *Run, id int) *Worker {
	w := &Worker{R: r, ID: id, obs: map[string]map[string]uint64{}, counters: map[string]uint64{}, Local: map[string]interface{}{}}
	if r.slots != nil {
		w.slot = r.slots[id*slotSize : (id+1)*slotSize]
	}
	w.Rng = NewRng(r.Seed, r.Check.ID, "worker", strconv.Itoa(id))
	return w
}

// CaseBudget is the wall-clock budget for one case: generous by three orders
// of magnitude against the measured linear cost (<= 0.2 us/byte).
func CaseBudget(n int64, factor float64) time.Duration {
	sec := 10.0 + 10e-6*float64(n)
	return time.Duration(sec * factor * float64(time.Second))
}

func (r *Run) merge(w *Worker) {
	r.mu.Lock()
	defer r.mu.Unlock()
	r.rep.Evaluations += w.evals
	for set, m := range w.obs {
		dst := r.rep.Obs[set]
		if dst == nil {
			dst = map[string]uint64{}
			r.rep.Obs[set] = dst
		}
		for k, v := range m {
			dst[k] += v
		}
	}
	for k, v := range w.counters {
		r.rep.Counters[k] += v
	}
	r.rep.NViolations += w.nviol
	for _, v := range w.viols {
		if len(r.rep.Violations) < 200 {
			r.rep.Violations = append(r.rep.Violations, v)
		}
	}
	if len(r.rep.Samples) < 12 {
		r.rep.Samples = append(r.rep.Samples, w.samples...)
	}
	w.evals, w.nviol, w.viols, w.samples = 0, 0, nil, nil
	w.obs = map[string]map[string]uint64{}
	w.counters = map[string]uint64{}
}

func (r *Run) Note(s string) { r.mu.Lock(); r.rep.Notes = append(r.rep.Notes, s); r.mu.Unlock() }
func (r *Run) Inconclusive(s string) {
	r.mu.Lock()
	r.rep.Inconcl = append(r.rep.Inconcl, s)
	r.mu.Unlock()
}
func (r *Run) Rep() *Report { return &r.rep }
func (r *Run) NewWorker(id int) *Worker {
	w := newWorker(r, id)
	return w
}
func (r *Run) Merge(w *Worker) { r.merge(w) }

// NewWorkerBare returns a worker that is not attached to a check (tools).
func (r *Run) NewWorkerBare() *Worker {
	return &Worker{R: r, obs: map[string]map[string]uint64{}, counters: map[string]uint64{}, Local: map[string]interface{}{}, Rng: NewRng(r.Seed, "bare")}
}

func (r *Run) popcount() uint64 {
	var n uint64
	for _, x := range r.bits {
		for x != 0 {
			x &= x - 1
			n++
		}
	}
	return n
}

func (r *Run) writeReport(done bool) {
	r.mu.Lock()
	defer r.mu.Unlock()
	r.rep.Done = done
	r.rep.Distinct = r.popcount()
	r.rep.WallS = time.Since(r.start).Seconds()
	for i := range r.rep.Violations {
		r.rep.Violations[i].Case.Pack()
	}
	if r.rep.Suspect != nil {
		r.rep.Suspect.Pack()
	}
	data, _ := json.Marshal(&r.rep)
	tmp := r.OutPath + ".tmp"
	os.WriteFile(tmp, data, 0o644)
	os.Rename(tmp, r.OutPath)
}

// Runner executes a check inside the child process.
func Runner(ch *Check, tier string, seed uint64, outPath, slotPath string) int {
	workers := runtime.NumCPU()
	if s := os.Getenv("VERIF_WORKERS"); s != "" {
		if n, err := strconv.Atoi(s); err == nil && n > 0 {
			workers = n
		}
	}
	r := &Run{Check: ch, Tier: tier, Seed: seed, Workers: workers, OutPath: outPath, start: time.Now()}
	r.rep = Report{Property: ch.ID, Tier: tier, Seed: seed, Obs: map[string]map[string]uint64{}, Counters: map[string]uint64{}}
	bitsLog := uint(27)
	if tier == "thorough" {
		bitsLog = 31
	}
	r.bits = make([]uint64, 1<<(bitsLog-6))
	r.bitMask = (1 << bitsLog) - 1
	if slotPath != "" {
		f, err := os.OpenFile(slotPath, os.O_RDWR|os.O_CREATE|os.O_TRUNC, 0o644)
		if err == nil {
			sz := (workers + 1) * slotSize
			if f.Truncate(int64(sz)) == nil {
				m, err := syscall.Mmap(int(f.Fd()), 0, sz, syscall.PROT_READ|syscall.PROT_WRITE, syscall.MAP_SHARED)
				if err == nil {
					r.slots = m
				}
			}
			f.Close()
		}
	}
	if r.slots == nil {
		r.slots = make([]byte, (workers+1)*slotSize)
	}
	if ch.MaxStack > 0 {
		setMaxStack(ch.MaxStack)
	}
	if ch.Custom != nil {
		ch.Custom(r)
		r.writeReport(true)
		return 0
	}
	units := ch.Plan(tier, seed)
	r.rep.Units = len(units)
	var next atomic.Int64
	var wg sync.WaitGroup
	r.ws = make([]*Worker, workers)
	for i := 0; i < workers; i++ {
		r.ws[i] = newWorker(r, i)
	}
	stop := make(chan struct{})
	go r.watchdog(stop)
	for i := 0; i < workers; i++ {
		wg.Add(1)
		go func(w *Worker) {
			defer wg.Done()
			for {
				k := int(next.Add(1)) - 1
				if k >= len(units) {
					break
				}
				u := units[k]
				w.gen = u.Gen
				ch.Gen(w, u, w.Do)
				r.merge(w)
			}
		}(r.ws[i])
	}
	wg.Wait()
	close(stop)
	if ch.After != nil {
		w := newWorker(r, workers)
		w.gen = "after"
		func() {
			defer func() {
				if rec := recover(); rec != nil {
					w.cur = Case{Kind: "after"}
					w.Violate("panic", fmt.Sprintf("%v\n%s", rec, debug.Stack()))
				}
			}()
			ch.After(w)
		}()
		r.merge(w)
	}
	r.writeReport(true)
	return 0
}

// watchdog fires when one worker stays on the same case for longer than that
// case's budget. It records the case as a suspect and ends the process; the
// driver then re-runs the suspect alone.
func (r *Run) watchdog(stop chan struct{}) {
	type st struct {
		seq   uint64
		since time.Time
	}
	last := make([]st, len(r.ws))
	now := time.Now()
	for i := range last {
		last[i] = st{0, now}
	}
	t := time.NewTicker(500 * time.Millisecond)
	defer t.Stop()
	for {
		select {
		case <-stop:
			return
		case now = <-t.C:
		}
		for i, w := range r.ws {
			s := w.seq.Load()
			if s != last[i].seq || w.idle.Load() {
				// progress was made, or no case is in flight (a worker that ran
				// out of units must not look like a hung one)
				last[i] = st{s, now}
				continue
			}
			if s == 0 {
				continue
			}
			if now.Sub(last[i].since) > CaseBudget(w.curLen.Load(), 1) {
				// read the case from the journal slot (written before the call)
				c, ok := decodeSlot(w.slot)
				r.mu.Lock()
				if ok {
					r.rep.Suspect = &c
				}
				r.rep.SuspectWhy = fmt.Sprintf("worker %d made no progress for %s", i, now.Sub(last[i].since))
				r.mu.Unlock()
				r.writeReport(false)
				os.Exit(3)
			}
		}
	}
}

// SortedKeys returns the keys of m ordered by descending count.
func SortedKeys(m map[string]uint64) []string {
	ks := make([]string, 0, len(m))
	for k := range m {
		ks = append(ks, k)
	}
	sort.Slice(ks, func(i, j int) bool {
		if m[ks[i]] != m[ks[j]] {
			return m[ks[i]] > m[ks[j]]
		}
		return ks[i] < ks[j]
	})
	return ks
}

func setMaxStack(n int) { debug.SetMaxStack(n) }
