// Package gen holds the workload generators shared by all monitors.
package gen

// SQLCore: one byte per dispatch class / look-ahead role of the SQL lexer,
// plus the multi-byte units whose openers are longer than the atom bound.
var SQLCore = []string{
	"0", "1", "9", "a", "b", "e", "n", "q", "u", "x", "N", "d", "f", "_",
	".", ",", ";", "(", ")", "[", "]", "{", "}", "'", "\"", "`", "\\", "/", "*",
	"-", "+", "#", "$", "@", "=", "<", ">", "!", "&", "|", "%", "^", "~", "?", ":",
	" ", "\n", "\x00", "\x7f", "\x80", "\xa0",
	"--", "/*", "*/", "$a$", "q'(", "u&'", "0x", "1e", "\\N", "sp_password",
}

// SQLEdge: a small alphabet for deeper bounded-exhaustive enumeration.
var SQLEdge = []string{"1", "a", "'", "\"", "\\", "-", "/", "*", "#", "$", "@", " ", "`", ";", "("}

// SQLMid: 24 symbols used at depth 5.
var SQLMid = []string{"1", "a", "'", "\"", "`", "\\", "-", "/", "*", "#", "$", "@", " ", ";", "(", ")", ".", ",", "=", "e", "x", "q", "&", "\n"}

// SQLExt: the core plus keywords of every class, the words folding rules
// name, phrase components and all literal forms.
var SQLExt = append(append([]string{}, SQLCore...), []string{
	"select", "SELECT", "union", "UNION", "all", "from", "where", "or", "OR", "and", "AND", "not", "NOT", "xor", "mod", "div",
	"in", "IN", "like", "LIKE", "is", "null", "NULL", "between", "having", "group", "by", "order", "limit", "into", "INTO",
	"outfile", "dumpfile", "insert", "update", "delete", "drop", "table", "exec", "execute", "declare", "waitfor", "delay",
	"if", "IF", "case", "when", "then", "else", "end", "begin", "goto", "shutdown", "sleep", "benchmark", "pg_sleep",
	"user", "USER", "user_id", "user_name", "database", "DATABASE", "password", "current_user", "current_date",
	"current_time", "current_timestamp", "localtime", "localtimestamp", "version", "concat", "char", "ascii", "substring",
	"load_file", "collate", "COLLATE", "utf8_bin", "binary", "int", "varchar", "date", "cast", "convert", "as", "true", "false",
	"natural", "join", "left", "cross", "full", "outer", "inner", "rlike", "regexp", "sounds", "similar", "to", "at", "time", "zone",
	"boolean", "mode", "for", "lock", "share", "next", "value", "own", "read", "only", "alter", "create", "with", "rollup",
	"intersect", "except", "distinct", "top", "percent", "print", "raiserror", "use", "kill", "open", "try", "catch",
	"1.", ".1", "1e5", "1e+", "1E-5", "0x1f", "0X1F", "0b1", "0B10", "1f", "1d", "1.5d", "x'1f'", "X'aB'", "b'01'", "B'1'", "n'a'", "N'a'",
	"e'a'", "E'a\\'b'", "u&'a'", "U&'a'", "q'(a)'", "Q'[a]'", "nq'[a]'", "nQ'{a}'", "q'!a!'", "$$a$$", "$t$a$t$", "$1.00", "$1,000",
	"@a", "@@a", "@`a`", "@'a'", "@\"a\"", "@@`a`", "[a]", "`a`", "`select`", "`sleep`", "'a'", "\"a\"", "''", "\"\"", "'\\'", "'a''b'",
	"<=>", "::", ":=", "||", "&&", "!=", "<>", "<=", ">=", "<<", ">>", "!!", "|/", "!<", "!>", "%=", "+=", "*=", "^=", "|=", "&=", "-=", "/=", "!~", "~*",
	"/*!", "/*!50000", "/*M!", "/*+", "/*/*", "/**/", "/*a*/", "--x\n", "-- x\n", "#x\n", "--", "-- ", "#",
	"1=1", "'a'='a", "a.b", "select.a", "select`a`", "`a`.`b`", "{", "}", "{`a`", "{a b}", "``",
	"\\1", "\\%1", "\\", "\t", "\v", "\f", "\r",
	"aaaaaaaaaaaaaaaaaaaaaaaaaaaaaaa", "aaaaaaaaaaaaaaaaaaaaaaaaaaaaaaaa", "1111111111111111111111111111111", "11111111111111111111111111111111",
	"\xc5\xbfelect", "un\xc4\xb1on", "\xc5\xbfleep", "\xc4\xb1n", "l\xc4\xb1ke", "u\xc5\xbfer", "\xc5\xbf", "\xc4\xb1", "\xe2\x84\xaa", "\xc3\x9f", "\xc4\xb0nto",
}...)

// HTMLBytes: the HTML-significant byte alphabet.
var HTMLBytes = []string{
	"<", ">", "/", "=", "'", "\"", "`", "!", "-", "?", "%", "[", "]", "&", "#", ";", "x", "X", "1", "a",
	"\x00", " ", "\t", "\n",
}

// HTMLFull: bytes plus markup units and list words.
var HTMLFull = append(append([]string{}, HTMLBytes...), []string{
	"\v", "\f", "\r", "\x7f", "\x80", ":", "o", "n",
	"<!--", "-->", "--!>", "-!>", "<![CDATA[", "]]>", "<%", "%>", "<?", "<!", "</", "/>", "doctype", "DOCTYPE", "[if", "[IF", "xml", "XML", "import", "IMPORT",
	"entity", "ENTITY", "script", "SCRIPT", "svg", "svt", "xsl", "a", "b", "href", "HREF", "src", "style", "STYLE", "filter", "onclick", "ONCLICK", "onerror", "on",
	"xmlns", "xlink", "xlink:href", "attributename", "by", "to", "from", "action", "datasrc", "javascript:", "JAVASCRIPT:", "java", "data:", "DATA", "vbscript:", "view-source:",
	"&#106;", "&#x6a", "&#X6A;", "&#", "&#x", "&#0", "&#x0", "&#106", "&#00000106;", "&#x1000100;", "&", "&amp;",
	"&#60;", "&#x3c;", "&#060", "&#61;", "&#x3D;", "&lt;", "&#62;", "&#34;", "&#39;", "&#x60;", "&#47;",
	// named references and element names a "more HTML5-conformant" change would start to treat specially
	"&NewLine;", "&Tab;", "&colon;", "plaintext", "textarea",
	// other alphabets' spellings of the markup metacharacters (text for this tokenizer)
	"%3C", "%3E", "%3D", "%22", "%27", "%3c", "+ADw-", "+AD4-", "+AD0-", "\\u003c", "\\x3c", "%u003c",
	// non-ASCII letters that Go's strings.ToUpper folds onto ASCII (U+017F -> S, U+0131 -> I) and other multi-byte letters
	"\xc5\xbf", "\xc4\xb1", "\xc5\xbfcript", "l\xc4\xb1nk", "x\xc5\xbf\xc5\xbf", "ba\xc5\xbfe", "\xc5\xbftyle", "on\xc5\xbfubmit", "\xc4\xb1frame", "\xe2\x84\xaa", "\xc3\x9f", "\xc4\xb0",
	"iframe", "embed", "object", "meta", "link", "base", "applet", "frame", "xss", "noscript", "isindex", "comment", "listener", "handler", "vmlframe", "frameset",
}...)

func without(dict []string, bad string) []string {
	var out []string
outer:
	for _, a := range dict {
		for i := 0; i < len(a); i++ {
			for j := 0; j < len(bad); j++ {
				if a[i] == bad[j] {
					continue outer
				}
			}
		}
		out = append(out, a)
	}
	return out
}

// HTMLBytesNoLtEq / HTMLFullNoLtEq: the dictionaries minus atoms containing
// '<' or '='.
var HTMLBytesNoLtEq = without(HTMLBytes, "<=")
var HTMLFullNoLtEq = without(HTMLFull, "<=")

// HTMLMid: a 60-symbol subset of HTMLFull for three-atom enumeration in quick tiers.
var HTMLMid = []string{
	"<", ">", "/", "=", "'", "\"", "`", "!", "-", "?", "%", "[", "]", "&", "#", ";", ":", "x", "a", "\x00", " ", "\t", "\n", "\r",
	"<!--", "-->", "<![CDATA[", "]]>", "<%", "%>", "</", "/>", "doctype", "[if", "xml", "import", "script", "svt", "b", "href", "style", "onclick", "on",
	"xmlns", "attributename", "javascript:", "data:", "&#106;", "&#x6a", "&#", "iframe", "xss", "\xc5\xbf", "&#60;", "\x80", "<a ", "<a b=", "x' ", "x\" ", "x` ",
}
