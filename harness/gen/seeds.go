package gen

// SQLSeeds: hand-written inputs, one or more per lexical construct and per
// rule of fold / notWhitelist.
var SQLSeeds = []string{
	// attacks
	"1 or 1=1", "1' or '1'='1", "1' or 1=1 --", "1\" or 1=1 #", "x' union select 1,2,3 --", "1 union all select null,null",
	"-1' and 1=1 union/* foo */select load_file('/etc/passwd')--", "1; drop table users", "1; exec xp_cmdshell 'dir'",
	"1' and sleep(5)--", "1' waitfor delay '0:0:5'--", "1) or (1=1", "') or ('a'='a", "admin'--", "admin' #", "admin'/*",
	"1 and extractvalue(1,concat(0x7e,version()))", "1' and updatexml(1,concat(0x7e,(select user())),1)-- -", "1 or pg_sleep(5)",
	"1' or benchmark(10000000,md5(1))#", " or 1=1\\' union select 1 -- 1' union select 1 -- 1", "q'\xe9a\xe9' or 1=1",
	"1;if 1=1 waitfor delay '0:0:1'", "1 into outfile 'x'", "'x' into dumpfile 'y'", "1 procedure analyse()", "1 /*!50000union*/ select 1",
	"1 /* /* */ */ union", "select { ``.``.id }", "{`", "1 union select @@version", "1' || '1", "' + (select 1) + '", "1<@", "1 || 1",
	// whitelist boundaries
	"1 union", "1 UNION", "1 union --", "foo--", "foo -- bar", "foo#", "foo/*", "1--", "1 --", "1-- x", "1/*", "1 /*", " 1/*", " 1--", "1#", "1 #x", "1234-ABC--",
	"1*1--", "1+1--", "'a' + 'b'", "a' + 'b", "'a' and 'b'", "a' and 'b", "sexy and 17", "sexy and 17<18", "1 and 1", "1 and @a", "1 and 'a'",
	"'foo' 'bar'", "foo 'bar' \"zap\"", "1 select", "1 into", "a into b", "1 into x", "\"a\" into outfile", "1 select 1",
	// literals
	"1.", ".1", "1.5", "1e5", "1e+5", "1e+", "1e", "1.e", ".e", "1.2.3", "0x", "0x1", "0xz", "0X1F", "0b", "0b1", "0b12", "1f", "1d", "1f ", "1f;", "1fu", "1dUNION", "123FROM", "1.2fx",
	"x'", "x''", "x'1f'", "x'1g'", "X'AB", "b'", "b''", "b'01'", "b'02'", "n'", "n'a", "n'a'", "e'", "e'a'", "e'a\\'b'", "u&'a'", "u&'", "u&", "u'", "U&'a",
	"q'", "q'(", "q'(a)'", "q'(a)", "q'[a]'", "q'{a}'", "q'<a>'", "q'!a!'", "q' a '", "q'\x01", "nq'(a)'", "nq'", "nq", "n", "q", "NQ'[x]' ", "q'aaa'",
	"$", "$1", "$1.00", "$1,000.00", "$.", "$.1", "$a", "$a$", "$a$b$a$", "$a$b", "$$", "$$a", "$$a$$", "$$$$", "$ab$c$ab$d", "$a1$", "$\xc3$",
	"@", "@@", "@a", "@@a", "@a.b", "@`a`", "@`a", "@'a'", "@'a", "@\"a\"", "@@`a`", "@@'", "@ a", "@@@",
	"[", "[a", "[a]", "[]", "[a]b", "]", "`", "``", "`a", "`a`", "`select`", "`sleep`", "`a``b`", "`a\\`b`",
	"'", "''", "'''", "''''", "'a", "'a'", "'a''b'", "'a\\'b'", "'a\\\\'b'", "'\\", "'\\'", "\"", "\"\"", "\"a\\\"b\"", "\"a\"\"b\"", "'a\"b'", "\"a'b\"",
	"\\", "\\N", "\\n", "\\N1", "\\1", "\\%1", "\\\\", "\\'", "1\\N",
	// comments
	"/", "/*", "/**", "/**/", "/*a*/", "/*!", "/*!a*/", "/*! */1", "/* /* */", "/*a/*b*/", "/*/", "*/", "-", "--", "---", "-- ", "--\n1", "--x", "--x\n1", "-1", "- -1", "#", "#a\n1", "1#a", "1 -- x\n or 1",
	// operators
	"<=>", "<=", "<>", "!=", "!", "!!", "!!1", "::", ":", ":=", "a::int", "1::int", "'a'::text", "||", "|", "&&", "&", "~", "^", "%", "*", "+", "?", "<<", ">>", "|/", "||/", "<@", "@>", "!~*",
	// words / keywords
	"select", "SELECT", "select.a", "select.1", "select`a`", "a.select", "a.b.c", "a`b", "union all", "UNION ALL SELECT", "not in", "NOT IN (1)", "not like", "like(1)", "in boolean mode",
	"is not", "is not null", "group by", "order by", "natural join", "cross join", "at time zone", "sounds like", "similar to", "left outer join", "next value for", "own3d by",
	"user()", "user(1)", "user_id()", "database()", "password(1)", "current_user()", "current_user", "localtime()", "USER_NAME()", "a()", "@a()", "@user(",
	"in (1)", "a in (1)", "a in b", "a not in (1)", "1 like 2", "a like(", "collate utf8_bin", "collate a_b", "collate ab", "a collate b_c d",
	"int 1", "int int", "int (", "int a", "int 'a'", "int @a", "int sleep(", "1 int", "varchar", "cast(1 as int)",
	"(", "((", "(((1)))", "))", "(-1)", "(+", "(!1", "(~1)", "1+(-1)", "select +(", "select -1", "select +a", "select -@a", "select -'a'", "select -sleep(", "limit +(", "group by -1",
	"1,-1", "1,-a", "1,+'a'", "1,-sin(1)", ",-1", "1,1", "a,b", "'a',@b", "a.b", "select.`a`", "select . `a`", "1+1", "1+a", "a+1", "@a+1", "@a+@b", "@a+b", "1 + + 1", "1 and and 1", "a=1", "1 1", "a a",
	"{", "}", "{a", "{a b}", "{ a}", "{``", "{ `` }", "1}", "a}", "{a 1}", "{{", "}}",
	";", ";;", "1;;2", ";if", ";if 1", ";IF(1)", ";iF 1=1", "; if", ";a", "select 1;select 2",
	"1 (1)", "1,(1)", "1+(1)", "a+(1)", "a=(b)", "1),(1", "a)=(a", "1,(1),2", "1+(1)+1 or", "a=(1) or", "1),(1) union", "a)=(a) x",
	"\\1 or", "\\+1", "\\*1", "\\ 1", "1 \\N",
	"sp_password", "1 --sp_password", "1' --sp_password", "1 /*sp_password*/", "SP_PASSWORD --",
	"aaaaaaaaaaaaaaaaaaaaaaaaaaaaaaaaaaaaaaaa", "1111111111111111111111111111111111111111", "'aaaaaaaaaaaaaaaaaaaaaaaaaaaaaaaaaaaaaaaa'", "/*aaaaaaaaaaaaaaaaaaaaaaaaaaaaaaaaaaaaaaaa*/",
	"aaaaaaaaaaaaaaa aaaaaaaaaaaaaaaa", "aaaaaaaaaaaaaaaa aaaaaaaaaaaaaaaa", "union aaaaaaaaaaaaaaaaaaaaaaaaaaaaaa",
	"aaaaaaaaaaaaaaaaaaaaaaaaaaaaaa.select", "aaaaaaaaaaaaaaaaaaaaaaaaaaaaaaa.b", "aaaaaaaaaaaaaaaaaaaaaaaaaaaaaaaa.b", "select.aaaaaaaaaaaaaaaaaaaaaaaaaaaaaaaaaaaa",
	"\x00", "\x00\x00", "1\x001", "a\x00b", "\xa0", "1\xa0or\xa01=1", "\x7f", "\x80", "\xff", "\xc5\xbf", "1 union \xc5\xbfelect 1 from x", "\xc4\xb1n (1)", "1 or\x0b1=1", "1\x0cor\x0d1=1",
	"1 UNION SELECT 1 FROM a", "1 uNiOn SeLeCt 1", "1 OR 1=1", "1 Or 1=1",
	"/*M!50101 select*/ 1", "1 union /*M!100100 all */ select 1", "select /*+ index(t) */ 1 from t", "/*m!1*/", "\\*=1", "1 or \\*=1", "1 or @database()", "1 or `user`()", "`current_user`() or 1", "@user() or 1", "1 or @@version()",
	"select u&'a' uescape '!'", "u&'d!0061t!+000061' uescape '!' or 1", "select e'a\\'b' 'c'", "1 or 'a' similar to 'b' escape '!'", "$body$a$body$ or 1", "$$a$$ or 1", "1 at time zone 'utc' or 1", "select x'1f' 'ab'", "interval '1' day or 1",
	"1' or 1=1 -- 1", "1\" or \"a\"=\"a", "1' or 'a'='a' -- ", "1' and 1=1 #", "1' #\n or 1=1", "1 --x\n or 1=1", "1' --x\n or 1=1", "1\" --x\n or 1=1", "a\" or 1=1 #x",
}

// HTMLSeeds: payloads and one or more inputs per tokenizer state and
// classification rule.
var HTMLSeeds = []string{
	"<script>alert(1);</script>", "><script>alert(1);</script>", "x ><script>alert(1);</script>", "' ><script>alert(1);</script>", "\"><script>alert(1);</script>",
	"red;</style><script>alert(1);</script>", "onerror=alert(1)>", "x onerror=alert(1);>", "x' onerror=alert(1);>", "x\" onerror=alert(1);>", "x` onerror=alert(1);>",
	"<a href=\"javascript:alert(1)\">", "<a href='javascript:alert(1)'>", "<a href=javascript:alert(1)>", "<a href  =   javascript:alert(1); >", "<a href=\"  javascript:alert(1);\" >",
	"<a href=`javascript:alert(1)`>", "<a href=\"JAVASCRIPT:alert(1);\" >", "<xss class=progress-bar-animated onanimationstart=alert(1)>", "<svg/onload='+/\"/+/onmouseover=1/+/[*/[]/+alert(1)//'>",
	"myvar=onfoobar==", "onY29va2llcw==", "href=&#", "href=&#X", "<a href=&#106;avascript:x>", "<a href=&#x6a;avascript:x>", "<a href=&#X6A avascript:x>", "<a href=j&#0;ava\nscript:x>",
	"<a href=\x01\x02 javascript:x>", "<a href=\x80\xffdata:x>", "<a href=vbscript:x>", "<a href=view-source:x>", "<a href=/database>", "<a href=x>", "<a href=>", "<a href>", "<a href",
	"<img src=x onerror=alert(1)>", "<img/src=x/onerror=alert(1)>", "<img\nsrc\n=\nx\nonerror\n=\nalert(1)>", "<img src onerror=alert(1)>", "<p style=x>", "<p style='x'>", "<p filter=x>", "<p STYLE =x>",
	"<p xmlns=x>", "<p xlink=x>", "<p xlink:href=javascript:x>", "<set attributename=onclick>", "<set attributename=href>", "<set attributename=x>", "<set attributeName=xmlns to=x>",
	"<p datasrc=x>", "<p dataformatas=x>", "<p by=data:x>", "<p to=java>", "<p from=x>", "<p values=vbscript:>", "<form action=javascript:x>", "<button formaction=data:x>",
	"<a href=ja&NewLine;vascript:x>", "<a href=java&Tab;script:x>", "<a href=javascript&colon;x>", "<a href='jav&#x0A;ascript:x'>", "<a href=/home HREF=&#106;avascript:x>", "<a href=\x0bjavascript:x>", "<a href=javascript:void(0);x>", "<a href=\"javascript:alert(1)//javascript:void(0)\">",
	"<?xml\n", "<!--[if\r\n", "<?xml ", "<?xml a>b?>c", "<!\r-x>y-->z", "</a x=\">\"y>z", "</a x='>'y><script>", "<a folder=javascript:x>", "' folder=javascript:alert(1) ", "\x00<xss>", "\x00    <script>alert(1)</script>",
	"<!DOCTYPE html>", "<!doctype", "<!DoCtYpE x", "<!doctyp>", "<!ENTITY x>", "<!entity x>", "<!ent\x00ity x>", "<!ENTIT>", "<?import x>", "<?IMPORT x>", "<?imp\x00ort>", "<?xml x>", "<?xml>", "<?XML x", "<?x>", "<?>", "<?",
	"<!--[if gte IE 4]>x<![endif]-->", "<!--[IF x]>-->", "<!--[i", "<!-- ` -->", "<!--`", "<!-- x -->", "<!---->", "<!--->", "<!-->", "<!--", "<!-", "<!", "<!>", "<!x>", "<!x", "<!-- x --!>", "<!-- x -!>", "<!-- x -\x00->", "<!-- x -\x00\x00!>",
	"<!-- x - -> y -->", "<!-- x --", "<!-- x -", "<!-- x --\x00", "<!-- -- -->z<script>", "<!--x--><script>", "<!--x->--><script>",
	"<![CDATA[x]]>", "<![CDATA[", "<![CDATA[]", "<![CDATA[]]", "<![CDATA[]]>", "<![CDATA[]]]", "<![CDATA[]]]>", "<![CDATA[x]y]]>z", "<![CDATA[x]]><script>", "<![cdata[x]]>", "x<![CDATA[]]]",
	"<%x%>", "<%", "<%%", "<%>", "<%%>", "<%>%%>-", "<%%%`>%-<", "<% x % > %>y", "<%x%><script>", "x<%y%>z",
	"<a>", "<a >", "<a/>", "<a / >", "<a//>", "<a b>", "<a b=c>", "<a b='c'>", "<a b=\"c\">", "<a b=`c`>", "<a b='c'd>", "<a b='c'/>", "<a b='c' d>", "<a b= c>", "<a b =c>", "<a b = 'c'>",
	"<a b=c d=e>", "<a b=c/>", "<a b=c>d", "<a b='c", "<a b=\"c", "<a b=`c", "<a b=", "<a b", "<a ", "<a", "<", "<<", "<<a>", "<1>", "< a>", "<\x00a>", "<a\x00b>", "<sc\x00ript>", "<\x00script>",
	"</a>", "</a", "</", "</>", "</ a>", "</1>", "</a b>", "</a/>", "<a></a>", "<a>x</a>y", "</script>", "</a><script>",
	"<a b=c>", "<a =b>", "<a ==b>", "<a b==c>", "<a b=>c", "<a />b=c", "<a/b=c>", "<a b/c=d>", "<a b/=c>", "<a 'b'=c>", "<a \"b>", "<a b c d>",
	"'", "'a", "'a'", "' onclick=x", "'> <script>", "\"", "\" onclick=x", "`", "` onclick=x", "a'b\"c`d", "'\"`", "x'y", "' ", "'/", "'>", "'>x<a", "''", "'=", "'x'=y",
	">", ">>", "/>", "/", "//", "=", "==", "=x", "a=b", "a=b c=d", "a b", " a", "\x00a=b", "onclick=x", "ONCLICK=x", "on\x00click=x", "o\x00n\x00c\x00l\x00i\x00c\x00k=x", "onx=y", "on=y", "xmlns=y", "style=y",
	"<script", "<SCRIPT>", "<ScRiPt>", "<svg>", "<svt>", "<xsl>", "<XSL:x>", "<xml>", "<iframe>", "<embed>", "<meta>", "<base>", "<link>", "<object>", "<style>", "<applet>", "<frame>", "<frameset>",
	"<isindex>", "<noscript>", "<import>", "<comment>", "<handler>", "<listener>", "<vmlframe>", "<xss>", "<ab>", "<abc>", "<b>", "<br>", "<p>",
	"&#", "&#x", "&#1", "&#x1", "&#1;", "&#x1;", "&", "&&", "&#;", "&#x;", "&#xg", "&#a", "&#1114111;", "&#x10FFFF;", "&#x1000FF;", "&#x100100;", "&#1052927;", "&#1052928;", "&#99999999999;",
	"\x00", "<\x00", "<a\x00", "<a \x00b=c>", "<a b\x00=c>", "<a b=\x00c>", "<a b='\x00c'>", "<a\tb\n=\fc\r>", "<a\vb>", "<a b=c\vd>",
	"<a href=\"java&#09;script:x\">", "<a href=\"java\x00script:x\">", "<a href=\"  &#32; javascript:x\">", "<a href=\"x javascript:\">", "<a href=\"&#x6A&#x41&#x56&#x41\">",
	"<\xc5\xbfcript>", "<l\xc4\xb1nk>", "<x\xc5\xbf\xc5\xbf>", "<a \xc5\xbftyle=x>", "<a on\xc5\xbfubmit=x>", "<a xl\xc4\xb1nk=y>", "<\x00\xc5\xbfcript>", "<a hre\xc5\xbf=javascript:x>",
	"<a b=c onclick=d>", "<a onclick>", "<a onclick >=d>", "<a onclick/=d>", "<a onclick= d>", "<a onclick=\nd>", "<a onclick=''>", "<a onclick=>", "<a onclick=\"\">",
}
