package gen

import (
	"bufio"
	"encoding/hex"
	"os"
	"path/filepath"
	"strconv"
	"strings"
	"sync"

	"verif/harness/core"
)

func init() { core.Expander = Expand }

// Pow returns n^k (saturating).
func Pow(n, k int) uint64 {
	r := uint64(1)
	for i := 0; i < k; i++ {
		if r > (1<<62)/uint64(n) {
			return 1 << 62
		}
		r *= uint64(n)
	}
	return r
}

// Enum returns the idx-th concatenation of exactly k atoms of dict.
func Enum(dict []string, k int, idx uint64, buf []byte) []byte {
	buf = buf[:0]
	n := uint64(len(dict))
	var stack [16]int
	for i := k - 1; i >= 0; i-- {
		stack[i] = int(idx % n)
		idx /= n
	}
	for i := 0; i < k; i++ {
		buf = append(buf, dict[stack[i]]...)
	}
	return buf
}

// EnumUnits plans units covering every sequence of 1..k atoms.
func EnumUnits(name string, dictLen, k int, chunk uint64) []core.Unit {
	var us []core.Unit
	for l := 1; l <= k; l++ {
		total := Pow(dictLen, l)
		for lo := uint64(0); lo < total; lo += chunk {
			hi := lo + chunk
			if hi > total {
				hi = total
			}
			us = append(us, core.Unit{Gen: name, Lo: lo, Hi: hi, Arg: strconv.Itoa(l)})
		}
	}
	return us
}

// RangeUnits splits [0,total) into chunks.
func RangeUnits(name string, total, chunk uint64, arg string) []core.Unit {
	var us []core.Unit
	for lo := uint64(0); lo < total; lo += chunk {
		hi := lo + chunk
		if hi > total {
			hi = total
		}
		us = append(us, core.Unit{Gen: name, Lo: lo, Hi: hi, Arg: arg})
	}
	return us
}

var sqlSeps = []string{"", " ", " ", " ", "\t", "\n", "\v", "\f", "\r", "\xa0", "\x00", "/**/", "/*x*/", "+", "("}
var htmlSeps = []string{"", " ", " ", "\t", "\n", "\f", "\r", "/", "\x00", "\v"}

// RandSeq builds a random atom sequence with random separators.
func RandSeq(r *core.Rng, dict []string, maxLen int, seps []string) string {
	n := 1 + r.Intn(maxLen)
	var b strings.Builder
	sepMode := r.Intn(4)
	for i := 0; i < n; i++ {
		if i > 0 {
			switch sepMode {
			case 0:
			case 1:
				b.WriteByte(' ')
			default:
				b.WriteString(r.Pick(seps))
			}
		}
		b.WriteString(r.Pick(dict))
	}
	return b.String()
}

// Mutate applies 1..4 havoc steps to s.
func Mutate(r *core.Rng, s string, dict []string, pool []string) string {
	b := []byte(s)
	steps := 1 + r.Intn(4)
	for i := 0; i < steps; i++ {
		if len(b) > 4096 {
			b = b[:4096]
		}
		switch r.Intn(12) {
		case 0: // delete a byte
			if len(b) > 0 {
				p := r.Intn(len(b))
				b = append(b[:p], b[p+1:]...)
			}
		case 1: // insert an atom
			p := r.Intn(len(b) + 1)
			a := r.Pick(dict)
			b = append(b[:p], append([]byte(a), b[p:]...)...)
		case 2: // replace a byte with an atom
			if len(b) > 0 {
				p := r.Intn(len(b))
				a := r.Pick(dict)
				b = append(b[:p], append([]byte(a), b[p+1:]...)...)
			}
		case 3: // swap two bytes
			if len(b) > 1 {
				p, q := r.Intn(len(b)), r.Intn(len(b))
				b[p], b[q] = b[q], b[p]
			}
		case 4: // duplicate a substring elsewhere (repeated-tail shapes)
			if len(b) > 0 {
				p := r.Intn(len(b))
				l := 1 + r.Intn(len(b)-p)
				if l > 24 {
					l = 24
				}
				sub := append([]byte{}, b[p:p+l]...)
				q := r.Intn(len(b) + 1)
				b = append(b[:q], append(sub, b[q:]...)...)
			}
		case 5: // append a copy of the tail
			if len(b) > 0 {
				p := r.Intn(len(b))
				b = append(b, b[p:]...)
			}
		case 6: // wrap in a quote context
			qs := []string{"'", "\"", "`", "x'", "1'", "\"x"}
			b = append([]byte(r.Pick(qs)), b...)
		case 7: // flip ASCII case of a letter run (byte-wise)
			if len(b) > 0 {
				p := r.Intn(len(b))
				for j := p; j < len(b) && j < p+8; j++ {
					c := b[j]
					if c >= 'a' && c <= 'z' || c >= 'A' && c <= 'Z' {
						b[j] = c ^ 0x20
					}
				}
			}
		case 8: // splice with another pool member
			if len(pool) > 0 {
				o := pool[r.Intn(len(pool))]
				p := r.Intn(len(b) + 1)
				q := r.Intn(len(o) + 1)
				b = append(b[:p], o[q:]...)
			}
		case 9: // truncate
			if len(b) > 0 {
				b = b[:r.Intn(len(b))]
			}
		case 10: // random byte
			if len(b) > 0 {
				b[r.Intn(len(b))] = byte(r.Intn(256))
			}
		case 11: // repeat an atom a few times
			a := r.Pick(dict)
			p := r.Intn(len(b) + 1)
			rep := strings.Repeat(a, 2+r.Intn(6))
			b = append(b[:p], append([]byte(rep), b[p:]...)...)
		}
	}
	return string(b)
}

// FlipCase re-assigns the case of the ASCII letters of s according to mask
// bits (bit i decides the i-th letter; 1 = upper). Byte-wise: never uses
// strings.ToUpper, which would rewrite invalid UTF-8.
func FlipCase(s string, mask uint64, skip func(i int) bool) string {
	b := []byte(s)
	k := uint(0)
	for i, c := range b {
		if c >= 'a' && c <= 'z' || c >= 'A' && c <= 'Z' {
			if skip != nil && skip(i) {
				continue
			}
			if mask>>(k&63)&1 == 1 {
				b[i] = c &^ 0x20
			} else {
				b[i] = c | 0x20
			}
			k++
		}
	}
	return string(b)
}

// CountLetters counts ASCII letters not skipped.
func CountLetters(s string, skip func(i int) bool) int {
	n := 0
	for i := 0; i < len(s); i++ {
		c := s[i]
		if c >= 'a' && c <= 'z' || c >= 'A' && c <= 'Z' {
			if skip != nil && skip(i) {
				continue
			}
			n++
		}
	}
	return n
}

// Corpus -------------------------------------------------------------------

var corpusOnce sync.Once
var corpusSQL, corpusHTML []string

func loadQuoted(path string) []string {
	f, err := os.Open(path)
	if err != nil {
		return nil
	}
	defer f.Close()
	var out []string
	sc := bufio.NewScanner(f)
	sc.Buffer(make([]byte, 1<<20), 1<<20)
	for sc.Scan() {
		line := strings.TrimSpace(sc.Text())
		if line == "" || line[0] == '#' {
			continue
		}
		if s, err := strconv.Unquote(line); err == nil {
			out = append(out, s)
		}
	}
	return out
}

func loadCorpus() {
	dir := os.Getenv("VERIF_DIR")
	if dir == "" {
		dir = "/verif"
	}
	corpusSQL = append(loadQuoted(filepath.Join(dir, "corpus", "sql_fixtures.txt")), SQLSeeds...)
	corpusSQL = append(corpusSQL, loadQuoted(filepath.Join(dir, "corpus", "sql_extra.txt"))...)
	corpusHTML = append(loadQuoted(filepath.Join(dir, "corpus", "html_fixtures.txt")), HTMLSeeds...)
	corpusHTML = append(corpusHTML, loadQuoted(filepath.Join(dir, "corpus", "html_extra.txt"))...)
}

func CorpusSQL() []string  { corpusOnce.Do(loadCorpus); return corpusSQL }
func CorpusHTML() []string { corpusOnce.Do(loadCorpus); return corpusHTML }

// Scaled inputs ------------------------------------------------------------

// ScaleDesc describes prefix + unit repeated up to n bytes + suffix.
func ScaleDesc(prefix, unit, suffix string, n int) string {
	return "rep|" + hex.EncodeToString([]byte(prefix)) + "|" + hex.EncodeToString([]byte(unit)) + "|" + hex.EncodeToString([]byte(suffix)) + "|" + strconv.Itoa(n)
}

// Markers understood by Scale:
//
//	CounterMark inside unit: replaced by the repetition index in base 36, so
//	  that every repetition is distinct (non-repeating content);
//	TailMark + tailUnit + TailMark at the start of suffix: the body is
//	  unit^(n/2) followed by tailUnit^(n/2) (two different repeated units).
const (
	CounterMark = "\xfe\xfd"
	TailMark    = "\xfe\xfc"
)

func Scale(prefix, unit, suffix string, n int) string {
	var b strings.Builder
	b.Grow(n + len(prefix) + len(suffix) + len(unit) + 16)
	b.WriteString(prefix)
	tail := ""
	if strings.HasPrefix(suffix, TailMark) {
		rest := suffix[len(TailMark):]
		if k := strings.Index(rest, TailMark); k >= 0 {
			tail, suffix = rest[:k], rest[k+len(TailMark):]
		}
	}
	budget := n
	if tail != "" {
		budget = n / 2
	}
	if len(unit) > 0 {
		if strings.Contains(unit, CounterMark) {
			p := strings.SplitN(unit, CounterMark, 2)
			start := b.Len()
			for i := 0; b.Len()-start < budget || i == 0; i++ {
				b.WriteString(p[0])
				b.WriteString(strconv.FormatInt(int64(i), 36))
				b.WriteString(p[1])
			}
		} else {
			reps := budget / len(unit)
			if reps < 1 {
				reps = 1
			}
			for i := 0; i < reps; i++ {
				b.WriteString(unit)
			}
		}
	}
	if tail != "" {
		for i := 0; i < (n-budget)/len(tail); i++ {
			b.WriteString(tail)
		}
	}
	b.WriteString(suffix)
	return b.String()
}

// ParseScaleDesc decodes a ScaleDesc.
func ParseScaleDesc(desc string) (prefix, unit, suffix string, n int, ok bool) {
	p := strings.Split(desc, "|")
	if len(p) != 5 || p[0] != "rep" {
		return
	}
	pre, e1 := hex.DecodeString(p[1])
	u, e2 := hex.DecodeString(p[2])
	suf, e3 := hex.DecodeString(p[3])
	nn, e4 := strconv.Atoi(p[4])
	if e1 != nil || e2 != nil || e3 != nil || e4 != nil {
		return
	}
	return string(pre), string(u), string(suf), nn, true
}

// Expand regenerates an input from its description.
func Expand(desc string) (string, bool) {
	p := strings.Split(desc, "|")
	if len(p) == 5 && p[0] == "rep" {
		pre, e1 := hex.DecodeString(p[1])
		unit, e2 := hex.DecodeString(p[2])
		suf, e3 := hex.DecodeString(p[3])
		n, e4 := strconv.Atoi(p[4])
		if e1 != nil || e2 != nil || e3 != nil || e4 != nil {
			return "", false
		}
		return Scale(string(pre), string(unit), string(suf), n), true
	}
	return "", false
}

// Truncations: every prefix, every suffix, and every prefix followed by each
// dangling opener.
func Truncations(s string, openers []string, emit func(string)) {
	for i := 0; i <= len(s); i++ {
		emit(s[:i])
		if i > 0 && i < len(s) {
			emit(s[i:])
		}
	}
	if len(s) <= 64 {
		for i := 0; i <= len(s); i++ {
			for _, o := range openers {
				emit(s[:i] + o)
			}
		}
	} else {
		for _, o := range openers {
			emit(s + o)
		}
	}
}

var SQLOpeners = []string{"'", "\"", "`", "/*", "--", "#", "$a$", "$$", "q'(", "nq'[", "u&'", "n'", "e'", "x'", "b'", "0x", "1e", "1e+", "@", "@@", "@`", "[", "\\", "{", "1.", "$", " ", "\n", "\x00", "\xa0", "/*M!", "\\*="}
var HTMLOpeners = []string{"<", "</", "<!", "<!-", "<!--", "<!---", "<![CDATA[", "<![CDATA[]", "<![CDATA[]]", "<%", "<%%", "<?", "<a", "<a ", "<a b", "<a b=", "<a b='", "<a b=\"", "<a b=`", "&", "&#", "&#x", "&#1", "&#x1", "<!doctype", "<a/", "-", "--", "--!", " ", "\n", "\r\n", "\x00", "\t", ">", "?>", "\r-"}
