#!/bin/bash
# MANIFEST.setup_cmd: warm the Go build cache (plain and race builds) from files on disk only.
export GOFLAGS=-mod=mod GOPROXY=off GOSUMDB=off GOTOOLCHAIN=local
V="$(cd "$(dirname "$0")" && pwd)"
W="$V/.work/setup.$$"
mkdir -p "$W" "$V/evidence" "$V/replays"
trap 'rm -rf "$W"' EXIT
cd "$V/harness" || exit 1
go build -tags verif -o "$W/vh" ./cmd/vh || exit 1
go build -race -tags verif -o "$W/vh-race" ./cmd/vh || exit 1
echo "setup ok"
